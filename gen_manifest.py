#!/usr/bin/env python3
"""Writes MANIFEST.json from properties_cfg.json (single source of truth for what is claimed)."""
import json, subprocess, os
ROOT = os.path.dirname(os.path.abspath(__file__))
cfg = json.load(open(os.path.join(ROOT, "properties_cfg.json")))
# the commit of /repo this framework was last verified against ("unchanged tree"): used to tell new callees from existing ones
try:
    _head = subprocess.run(['git', '-C', '/repo', 'rev-parse', 'HEAD'], capture_output=True, text=True).stdout.strip()
    if _head and cfg.get('baseline_commit') != _head:
        cfg['baseline_commit'] = _head
        json.dump(cfg, open('/verif/properties_cfg.json', 'w'), indent=1, ensure_ascii=False)
except Exception:
    pass
props = [json.loads(l) for l in open(os.path.join(ROOT, "properties.jsonl")) if l.strip()]
checks, na = [], []
for p in props:
    pid = p["id"]
    pc = cfg["properties"].get(pid)
    if pc is None:
        na.append({"property_id": pid, "reason": cfg["not_applicable"].get(pid, "no contract within reach of the installed verifiers decides it (see DESIGN.md)")})
        continue
    checks.append({
        "property_id": pid,
        "quick_cmd": f"python3 check.py {pid} quick",
        "thorough_cmd": f"python3 check.py {pid} thorough",
        "evidence_file": f"evidence/{pid}.json",
        "replay_cmd_template": "python3 replay.py {path}",
        "engine": "vx+verus",
        "level_claimed": {"category": "proof", "text": pc["level_text"], "design_ref": pc.get("design_ref", "DESIGN.md §5 " + pid)},
        "level_note": pc["level_note"],
        "technique": pc.get("technique", "contract-based deductive verification (Verus) of function bodies extracted mechanically from /repo on every run"),
    })
m = {
    "version": 1,
    "setup_cmd": "cd vx && CARGO_NET_OFFLINE=true cargo build --release --offline",
    "hooks": cfg["hooks"],
    "engines": [{"name": "vx+verus", "path": "vx/, check.py, units/", "serves_properties": [c["property_id"] for c in checks],
                 "kind_free_text": "syn-based extractor splicing real function bodies into Verus unit templates; Verus/Z3 discharges the obligations; Python driver classifies, guards vacuity, scans assumptions, writes evidence"}],
    "checks": checks,
    "notes": cfg.get("notes", ""),
    "not_applicable": na,
}
json.dump(m, open(os.path.join(ROOT, "MANIFEST.json"), "w"), indent=1)
print("MANIFEST.json:", len(checks), "checks,", len(na), "not applicable")
