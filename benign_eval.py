#!/usr/bin/env python3
"""benign_eval.py <patch.diff>...  — apply a behaviour-preserving patch to a scratch copy of /repo and run every unit that reads a
touched file. A FAILED line (other than the listed known finding) is a false alarm of the machinery; UNDECIDED is tolerated (and shown).
Output: one JSON line per patch."""
import json, os, re, subprocess, sys

ROOT = os.path.dirname(os.path.abspath(__file__))
D = "/tmp/seedrepo"
KNOWN = {"loaders/::harness_choice_roundtrip/C02.harness.invisible_default_flag_survives_save_and_load"}


def units_reading(files):
    res = set()
    texts = {}
    for dp, _, fs in os.walk(os.path.join(ROOT, "units")):
        for f in fs:
            if f.endswith((".vrs", ".txt", ".head")):
                texts[os.path.join(dp, f)] = open(os.path.join(dp, f)).read()
    top = [p for p in texts if os.path.dirname(p) == os.path.join(ROOT, "units") and p.endswith(".vrs") and not os.path.basename(p).startswith(".")]
    for u in top:
        seen, todo = set(), [u]
        hit = False
        while todo:
            p = todo.pop()
            if p in seen or p not in texts:
                continue
            seen.add(p)
            t = texts[p]
            if any(f in t for f in files):
                hit = True
            for m in re.finditer(r"//@include\s+(\S+)", t):
                todo.append(os.path.join(ROOT, "units", m.group(1)))
                todo.append(os.path.join(os.path.dirname(p), m.group(1)))
        if hit:
            res.add(os.path.basename(u)[:-4])
    return sorted(res)


def main():
    if not os.path.isdir(D):
        subprocess.run(["rsync", "-a", "--exclude", "target", "/repo/", D + "/"], check=True)
    for patch in [os.path.abspath(a) for a in sys.argv[1:]]:
        subprocess.run(["rsync", "-a", "--delete", "--exclude", "target", "/repo/", D + "/"], check=True, stdout=subprocess.DEVNULL)
        files = [l[6:].strip() for l in open(patch) if l.startswith("+++ b/")]
        r = subprocess.run(["git", "apply", patch], cwd=D, capture_output=True, text=True)
        if r.returncode != 0:
            print(json.dumps({"patch": patch, "applies": False}))
            continue
        out = {"patch": os.path.basename(os.path.dirname(patch)) + "/" + os.path.basename(patch), "files": files, "units": {}, "false_alarms": []}
        env = dict(os.environ, VERIF_REPO=D)
        for u in units_reading(files):
            r = subprocess.run([sys.executable, os.path.join(ROOT, "check.py"), "--unit", u], capture_output=True, text=True, env=env)
            failed = [l[7:].strip() for l in r.stdout.splitlines() if l.startswith("FAILED ")]
            und = [l for l in r.stdout.splitlines() if l.startswith("UNDECIDED")]
            fa = [f for f in failed if f not in KNOWN]
            out["units"][u] = {"exit": r.returncode, "failed": fa, "undecided": len(und), "undecided_first": (und[0][:200] if und else "")}
            out["false_alarms"] += fa
        subprocess.run(["git", "checkout", "-q", "--", "."], cwd=D)
        print(json.dumps(out))
        sys.stdout.flush()


if __name__ == "__main__":
    main()
