#!/usr/bin/env python3
"""audit_asserts.py [unit..] — reachability audit of the labelled assertions spliced into function bodies (//@at blocks, harnesses).
For each `assert(/*[label]*/ ...)` of a generated unit file, a copy in which that one assertion is preceded by `assert(false);`
is verified: `assert(false)` must FAIL there (otherwise the spot is unreachable and the labelled assertion proves nothing).
Not a property check (nothing registers it in MANIFEST); run after adding or moving an //@at anchor. Output: one line per assertion."""
import json, os, re, subprocess, sys
from concurrent.futures import ThreadPoolExecutor

ROOT = os.path.dirname(os.path.abspath(__file__))
VX = os.path.join(ROOT, "vx", "target", "release", "vx")


def run(args):
    unit, idx, line_no, label, text = args
    d = f"/tmp/audit_{os.getpid()}"
    os.makedirs(d, exist_ok=True)
    name = f"{unit}_a{idx}"
    lines = text.split("\n")
    lines[line_no] = "assert(false); /*AUDIT*/ " + lines[line_no]
    path = os.path.join(d, name + ".rs")
    open(path, "w").write("\n".join(lines))
    r = subprocess.run(["verus", path, "--edition", "2024", "--triggers-mode", "silent", "--output-json", "--error-format=json", "--multiple-errors", "5", "--rlimit", "50"],
                       capture_output=True, text=True, cwd=d)
    hit = False
    errors = 0
    for l in r.stderr.splitlines():
        try:
            j = json.loads(l)
        except Exception:
            continue
        if j.get("level") == "error":
            errors += 1
            for sp in j.get("spans", []):
                if sp.get("line_start") == line_no + 1 and "assert(false)" in (sp.get("text", [{}])[0].get("text", "") if sp.get("text") else "assert(false)"):
                    hit = True
    os.remove(path)
    # UNREACHABLE only when the whole file verified with `assert(false)` in place; any other outcome (resource limit, another
    # error reported first) is inconclusive and decides nothing
    verified = errors == 0 and r.returncode == 0
    return unit, label, "reachable" if hit else ("UNREACHABLE" if verified else "inconclusive")


def audit_unit(u, workers=6):
    """[(label, verdict)] for the labelled assertions spliced into the bodies of unit `u`"""
    jobs = []
    out = f"/tmp/audit_{os.getpid()}_{u}.rs"
    r = subprocess.run([VX, "extract", "--repo", os.environ.get("VERIF_REPO", "/repo"), "--unit", os.path.join(ROOT, "units", u + ".vrs"), "--out", out, "--log", out + ".json"], capture_output=True, text=True)
    if r.returncode != 0:
        return [("<extract>", "UNREACHABLE-OR-UNDECIDED")]
    text = open(out).read()
    for i, l in enumerate(text.split("\n")):
        m = re.search(r"assert\(/\*\[([^\]]+)\]\*/", l)
        if m and "ensures" not in l:
            jobs.append((u, len(jobs), i, m.group(1), text))
    res = []
    with ThreadPoolExecutor(max_workers=workers) as ex:
        for unit, label, verdict in ex.map(run, jobs):
            res.append((label, verdict))
    for f in (out, out + ".json"):
        if os.path.exists(f):
            os.remove(f)
    return res


def main():
    units = sys.argv[1:] or sorted(f[:-4] for f in os.listdir(os.path.join(ROOT, "units")) if f.endswith(".vrs"))
    jobs = []
    for u in units:
        out = f"/tmp/audit_{os.getpid()}_{u}.rs"
        r = subprocess.run([VX, "extract", "--repo", os.environ.get("VERIF_REPO", "/repo"), "--unit", os.path.join(ROOT, "units", u + ".vrs"), "--out", out, "--log", out + ".json"], capture_output=True, text=True)
        if r.returncode != 0:
            print(u, "extract failed", r.stdout[-200:])
            continue
        text = open(out).read()
        for i, l in enumerate(text.split("\n")):
            m = re.search(r"assert\(/\*\[([^\]]+)\]\*/", l)
            if m and "ensures" not in l:
                jobs.append((u, len(jobs), i, m.group(1), text))
    with ThreadPoolExecutor(max_workers=6) as ex:
        for unit, label, verdict in ex.map(run, jobs):
            print(f"{verdict:26} {unit:16} {label}")
            sys.stdout.flush()


if __name__ == "__main__":
    main()
