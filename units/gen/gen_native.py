#!/usr/bin/env python3
"""Generates units/native_int.vrs (the template is committed; this script only saves typing).
Every FUC body still comes from /repo at check time via vx."""
F = "runtime/src/native_function_call.rs"
binops = ["add_op","subtract_op","multiply_op","divide_op","mod_op","equal_op","not_equals_op","greater_op","less_op",
          "greater_than_or_equals_op","less_than_or_equals_op","and_op","or_op","min_op","max_op","pow_op","has","hasnt","intersect_op"]
unops = ["negate_op","not_op","floor_op","ceiling_op","int_op","float_op","list_min_op","list_max_op","all_op","count_op","value_of_list_op","inverse_op"]
opmap = {"add_op":"Add","subtract_op":"Subtract","divide_op":"Divide","multiply_op":"Multiply","mod_op":"Mod","negate_op":"Negate",
 "equal_op":"Equal","greater_op":"Greater","less_op":"Less","greater_than_or_equals_op":"GreaterThanOrEquals","less_than_or_equals_op":"LessThanOrEquals",
 "not_equals_op":"NotEquals","not_op":"Not","and_op":"And","or_op":"Or","min_op":"Min","max_op":"Max","pow_op":"Pow","floor_op":"Floor",
 "ceiling_op":"Ceiling","int_op":"Int","float_op":"Float","has":"Has","hasnt":"Hasnt","intersect_op":"Intersect","list_min_op":"ListMin",
 "list_max_op":"ListMax","all_op":"All","count_op":"Count","value_of_list_op":"ValueOfList","inverse_op":"Invert"}
cmpmap = {"greater_op": ("*op1 > op2", "(*op1).vx_gt(op2)"), "less_op": ("*op1 < op2", "(*op1).vx_lt(op2)"),
          "greater_than_or_equals_op": ("*op1 >= op2", "(*op1).vx_ge(op2)"), "less_than_or_equals_op": ("*op1 <= op2", "(*op1).vx_le(op2)")}
extra = {
 "negate_op": "    //@exprmap Value::new_f32(-op1) => Value::new_f32(f32_neg(*op1))\n",
 "min_op": "    //@exprmap f32::min(*op1, op2) => f32_min(*op1, op2)\n    //@exprmap i32::min(*op1, op2) => i32_min(*op1, op2)\n",
 "max_op": "    //@exprmap f32::max(*op1, op2) => f32_max(*op1, op2)\n    //@exprmap i32::max(*op1, op2) => i32_max(*op1, op2)\n",
 "has": "    //@exprmap op1.string.contains(&op2.string) => str_contains(&op1.string, &op2.string)\n",
 "hasnt": "    //@exprmap op1.string.contains(&op2.string) => str_contains(&op1.string, &op2.string)\n",
 "equal_op": "    //@exprmap op1.string.eq(&op2.string) => string_eq(&op1.string, &op2.string)\n    //@exprmap op1.eq(op2) => op1.eq(op2)\n",
 "not_equals_op": "    //@exprmap op1.string.eq(&op2.string) => string_eq(&op1.string, &op2.string)\n",
}
for f_, (a_, b_) in cmpmap.items():
    extra[f_] = extra.get(f_, "") + f"    //@exprmap {a_} => {b_}\n"
extra["equal_op"] += "    //@exprmap *op1 == op2 => (*op1).vx_eq(op2)\n"
extra["not_equals_op"] += "    //@exprmap *op1 != op2 => (*op1).vx_ne(op2)\n"
extra["and_op"] = "    //@exprmap *op1 != 0.0 => (*op1).vx_ne(0.0)\n    //@exprmap op2 != 0.0 => op2.vx_ne(0.0)\n"
extra["or_op"] = "    //@exprmap *op1 != 0.0 => (*op1).vx_ne(0.0)\n    //@exprmap op2 != 0.0 => op2.vx_ne(0.0)\n"
extra["int_op"] = "    //@exprmap *op1 as i32 => f32_as_i32(*op1)\n"
extra["float_op"] = "    //@exprmap *op1 as f32 => i32_as_f32(*op1)\n"
extra["not_op"] = "    //@exprmap *op1 == 0.0 => (*op1).vx_eq(0.0)\n"
out = []
for f in binops + unops:
    n = 2 if f in binops else 1
    out.append(f"    //@fn {F} NativeFunctionCall::{f}\n        requires params@.len() == {n},\n        ensures /*[C07.{f}.post]*/ post_{f}(params@, r),\n{extra.get(f,'')}    //@end\n")
fucs = "\n".join(out)
ct = "\n".join(f"            self.op == Op::{opmap[f]} ==> post_{f}(coerced_params@, r)," for f in binops+unops)
tpl = open("gen/native_int.head").read().replace("@@OPFUCS@@", fucs).replace("@@CALLTYPE@@", ct)
open("native_int.vrs","w").write(tpl)
