#!/usr/bin/env python3
"""Inventories (C03 / C08): syntactic enumerations over /repo that make a check UNDECIDED when the code grows a new
site the contracts do not cover.
  hash_iteration_sites(repo): every iteration over a HashMap/HashSet-typed place in runtime/src
  pub_mut_api(repo):          every `pub fn (&mut self ..)` in impl Story
"""
import os, re, sys, json

def rs_files(root):
    for d, _, fs in os.walk(root):
        for f in sorted(fs):
            if f.endswith(".rs"):
                yield os.path.join(d, f)

FN_RE = re.compile(r"^\s*(?:pub(?:\([a-z]+\))?\s+)?(?:const\s+)?fn\s+([A-Za-z0-9_]+)")

def hash_names(repo):
    names = set()
    for p in rs_files(os.path.join(repo, "runtime/src")):
        for line in open(p, errors="replace"):
            m = re.match(r"\s*(?:pub(?:\([a-z]+\))?\s+)?([a-z_0-9]+)\s*:\s*(?:Option<\s*)?(?:Rc<\s*)?(?:RefCell<\s*)?(?:std::collections::)?(HashMap|HashSet)<", line)
            if m:
                names.add(m.group(1))
            m = re.match(r"\s*let\s+(?:mut\s+)?([a-z_0-9]+)\s*(?::\s*[^=]*)?=\s*(?:std::collections::)?(HashMap|HashSet)::", line)
            if m:
                names.add(m.group(1))
            m = re.match(r"\s*let\s+(?:mut\s+)?([a-z_0-9]+)\s*:\s*(?:&\s*(?:mut\s+)?)?(?:std::collections::)?(HashMap|HashSet)<", line)
            if m:
                names.add(m.group(1))
    return names

def hash_iteration_sites(repo):
    names = hash_names(repo)
    if not names:
        return []
    alt = "|".join(sorted(names, key=len, reverse=True))
    pat_for = re.compile(r"for\s+.+\s+in\s+(?:&\s*(?:mut\s+)?)?[A-Za-z0-9_\.\(\)\*]*\b(" + alt + r")\b(?!\s*\.(?:get|len|contains|insert|remove|is_empty)\b)")
    pat_meth = re.compile(r"\b(" + alt + r")\s*(?:\.\s*as_ref\(\)\s*\.\s*unwrap\(\)|\.\s*as_mut\(\)\s*\.\s*unwrap\(\)|\.\s*borrow(?:_mut)?\(\))?\s*\.\s*(iter|iter_mut|keys|values|values_mut|into_iter|drain|into_keys|into_values|retain)\s*\(")
    sites = []
    seen = set()
    for p in rs_files(os.path.join(repo, "runtime/src")):
        rel = os.path.relpath(p, repo)
        text = open(p, errors="replace").read()
        # blank out line comments (keep offsets)
        text_nc = re.sub(r"//[^\n]*", lambda m: " " * len(m.group(0)), text)
        fn_starts = [(m.start(), m.group(1)) for m in re.finditer(r"(?m)^\s*(?:pub(?:\([a-z]+\))?\s+)?(?:const\s+)?fn\s+([A-Za-z0-9_]+)", text_nc)]
        def fn_at(off):
            cur = "?"
            for st, nm in fn_starts:
                if st <= off:
                    cur = nm
                else:
                    break
            return cur
        for pat in (pat_meth, pat_for):
            for m in pat.finditer(text_nc):
                line = text_nc.count("\n", 0, m.start()) + 1
                ls = text_nc.rfind("\n", 0, m.start()) + 1
                le = text_nc.find("\n", m.end())
                snippet = re.sub(r"\s+", "", text_nc[ls:le if le > 0 else len(text_nc)])[:90]
                cur = fn_at(m.start())
                key = f"{rel}::{cur}::{snippet}"
                if (rel, line) in seen:
                    continue
                seen.add((rel, line))
                sites.append({"key": key, "file": rel, "line": line, "fn": cur, "text": snippet})
    sites.sort(key=lambda x: (x["file"], x["line"]))
    return sites

def pub_mut_api(repo):
    out = []
    d = os.path.join(repo, "runtime/src/story")
    for p in rs_files(d):
        rel = os.path.relpath(p, repo)
        text = open(p, errors="replace").read()
        for m in re.finditer(r"\n\s*pub fn\s+([a-z_0-9]+)\s*(?:<[^>]*>)?\s*\(\s*&mut self", text):
            out.append({"fn": m.group(1), "file": rel})
    return out

def json_prints(repo):
    """every print!/println!/format! in rinklecate/src/player.rs whose format string builds JSON (starts with `{{\"` or `\"{}\"`),
    with its arguments; an argument is SAFE if it is escape_json_string(..), a .len(), or a join of already-escaped parts"""
    p = os.path.join(repo, "rinklecate/src/player.rs")
    text = open(p, errors="replace").read()
    out = []
    for m in re.finditer(r"(println!|print!|format!)\s*\(", text):
        # balanced parens
        i = m.end(); depth = 1
        while i < len(text) and depth > 0:
            ch = text[i]
            if ch == '"':
                i += 1
                while i < len(text) and text[i] != '"':
                    i += 2 if text[i] == "\\" else 1
            elif ch == "(":
                depth += 1
            elif ch == ")":
                depth -= 1
            i += 1
        call = text[m.start():i]
        sq = re.sub(r"\s+", " ", call)
        fm = re.search(r'\(\s*"((?:[^"\\]|\\.)*)"', sq)
        if not fm:
            continue
        fmt = fm.group(1)
        if not (fmt.startswith('{{\\"') or fmt.startswith('\\"{}\\"') ):
            continue
        args = sq[fm.end():].rstrip(")").strip().lstrip(",").strip()
        line = text.count("\n", 0, m.start()) + 1
        out.append({"key": re.sub(r"\s+", "", sq)[:160], "line": line, "format": fmt, "args": args})
    return out

if __name__ == "__main__":
    repo = sys.argv[2] if len(sys.argv) > 2 else "/repo"
    if sys.argv[1] == "json":
        for s_ in json_prints(repo):
            print(s_["key"], "   # line", s_["line"], "| args:", s_["args"])
    elif sys.argv[1] == "hash":
        for s in hash_iteration_sites(repo):
            print(s["key"], "   #", s["file"] + ":" + str(s["line"]))
    else:
        for s in pub_mut_api(repo):
            print(s["fn"], s["file"])
