#!/bin/sh
# mut.sh <property> <patch-file|sed-script:file>  — run a check against a scratch copy of /repo with a patch applied.
# The copy lives under /tmp and is removed afterwards; /repo itself is never touched.
set -e
P=$1; PATCH=$2
D=$(mktemp -d /tmp/mrepo.XXXXXX)
rsync -a --exclude target /repo/ $D/
( cd $D && git apply "$PATCH" ) || { echo "patch does not apply"; rm -rf $D; exit 3; }
set +e
VERIF_REPO=$D python3 /verif/check.py $P quick
rc=$?
rm -rf $D
exit $rc
