#!/usr/bin/env python3
"""replay.py <replays/Cxx-n.json>
Shows a reported violation (the failed obligation, where it sits in /repo, Verus' own output) and re-checks it: the unit
that owns the obligation is extracted again from the current /repo (or $VERIF_REPO) and verified; exit 1 if the
obligation still fails, 0 if it is discharged now, 2 if that cannot be decided.
Verus produces no counterexample, so there is no failing input to run; when a witness scenario was attached
(`failing_input`), it is printed with the command that runs it against the real crate (replay/)."""
import json, os, subprocess, sys

ROOT = os.path.dirname(os.path.abspath(__file__))


def main():
    if len(sys.argv) < 2:
        print(__doc__)
        return 64
    rep = json.load(open(sys.argv[1]))
    print(f"property:          {rep.get('property')}")
    print(f"failed obligation: {rep.get('failed_obligation')}")
    print(f"function:          {rep.get('function')}   ({rep.get('source')})")
    print(f"kind:              {rep.get('kind')}")
    print(f"expression:        {rep.get('expression')}")
    print(f"note:              {rep.get('note')}")
    print("---- verifier output ----")
    print(rep.get("verifier_output") or "")
    if rep.get("failing_input"):
        print("---- witness scenario ----")
        print(json.dumps(rep["failing_input"], indent=1))
    unit = (rep.get("failed_obligation") or "").split("/")[0]
    if not unit or not os.path.exists(os.path.join(ROOT, "units", unit + ".vrs")):
        print("cannot re-check: unknown unit")
        return 2
    p = subprocess.run([sys.executable, os.path.join(ROOT, "check.py"), "--unit", unit], capture_output=True, text=True)
    failed = [l[7:] for l in p.stdout.splitlines() if l.startswith("FAILED ")]
    print("---- re-check on the current tree ----")
    if rep.get("failed_obligation") in failed:
        print("still fails")
        return 1
    if p.returncode == 2:
        print("undecided: " + "; ".join(l for l in p.stdout.splitlines() if l.startswith("UNDECIDED"))[:600])
        return 2
    print("discharged now")
    return 0


if __name__ == "__main__":
    sys.exit(main())
