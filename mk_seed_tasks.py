#!/usr/bin/env python3
"""mk_seed_tasks.py <round> <Cxx>... — writes /tmp/seed_out<round>/<Cxx>/TASK.md for seeding sub-agents (each gets only the property
statement, the list of changes already used, and a scratch worktree /tmp/wt<round>_<Cxx>) and creates the worktrees. Dev tool, not a check."""
import json, re, os, subprocess, sys
rnd = sys.argv[1]
targets = sys.argv[2:]
props = {json.loads(l)['id']: json.loads(l)['statement'] for l in open('/verif/properties.jsonl')}
design = open('/verif/DESIGN.md').read()
extra = {'C14': "For this property the change goes into ONE of the two loaders of a compiled story (runtime/src/json/json_read.rs = default, runtime/src/json/json_read_stream.rs + json_tokenizer.rs = streaming, compiled only with `--features stream-json-parser` on the bladeink crate) so that they disagree for some well-formed compiled story. The demo may then need the feature: check conformance-tests/Cargo.toml for `--features bladeink/stream-json-parser` forwarding and state the exact command in meta.json as demo_command. Both `cargo test --workspace --offline` and `cargo test -p bladeink --features stream-json-parser --offline` must stay green with the change.",
         'C20': "For this property the change goes into the command line tool rinklecate/ (binary `rinklecate`; src/player.rs, src/main.rs, src/compiler_tool.rs). The demo goes to rinklecate/tests/seed_demo_X.rs and can run the built tool with env!(\"CARGO_BIN_EXE_rinklecate\") and std::process::Command (piping stdin); state demo_location and demo_command in meta.json."}
out = f'/tmp/seed_out{rnd}'
for p in targets:
    used = [m.group(2).strip() for m in re.finditer(r'^\| (' + p + r'_[A-Z]) \| ([^|]+)\|', design, flags=re.M)]
    os.makedirs(f'{out}/{p}', exist_ok=True)
    wt = f'/tmp/wt{rnd}_{p}'
    t = f'''# Task: one seeded, property-breaking change for property {p}

You are helping evaluate a verification setup by producing ONE realistic, subtle, property-breaking code change ("seeded change") to a Rust project.
Work ONLY inside the git worktree {wt} (a checkout of the blade-ink-rs repository: Rust port of Inkle's Ink narrative scripting runtime; crates: runtime = `bladeink` (runtime/), compiler = `bladeink-compiler` (compiler/), command line tool (rinklecate/), conformance-tests/).
Do NOT touch /repo or /verif, do NOT read anything under /verif. NEVER use `git stash`. No network: always pass `--offline` to cargo (and set CARGO_NET_OFFLINE=true).

## The property you must break
"{props[p]}"

{extra.get(p, '')}

## Changes already used in earlier rounds — pick something DIFFERENT (a different function or a different mechanism)
''' + "\n".join(f"- {u}" for u in used) + f'''

## What to do
1. Read the code relevant to the property. Choose a change a real developer could plausibly make (a refactor, an "optimisation", a simplification, an off-by-one, a wrong default, reordering, a wrong merge) that makes the property false for some inputs / host call sequences but (a) still compiles, (b) keeps the whole existing test suite green: `cd {wt} && cargo test --workspace --no-fail-fast --offline` — ALL tests must pass with your change. Keep the diff small (1–25 lines, 1–2 files). Write ordinary straightforward Rust (plain loops, if/match); avoid introducing iterator adapters with closures; keep the names of existing local variables where you can.
2. Write {out}/{p}/demo.rs: a standalone integration test (by default it will be copied to conformance-tests/tests/seed_demo_X.rs; it can `use bladeink::story::Story; use bladeink_compiler::Compiler;` — see the existing files in conformance-tests/tests for the API) that PASSES on the unchanged code and FAILS with your change.
3. Verify both (passes without the change, fails with it). Remove the test file again, then run the full suite with the change (must be all green).
4. Save the change: `git diff -- runtime rinklecate > {out}/{p}/patch.diff` (source changes only). Restore the worktree (`git checkout -- .`) and check `git apply --check {out}/{p}/patch.diff`.
5. Write {out}/{p}/meta.json with keys: property ("{p}"), summary (what was changed, function names, why it breaks the property), needs_to_manifest, files_changed, suite_result_with_change (e.g. "302 passed, 0 failed"), demo_fails_with_change (bool), demo_passes_without_change (bool).

Report back in under 120 words: what you changed and the confirmation results. If an idea makes an existing test fail, pick another idea rather than editing tests.
'''
    open(f'{out}/{p}/TASK.md', 'w').write(t)
    subprocess.run(['git', '-C', '/repo', 'worktree', 'add', '-q', '--detach', wt, 'HEAD'], check=True)
print('ok', out)
