#!/usr/bin/env python3
"""check.py <PROPERTY_ID> [quick|thorough]

Decides one property by contract-based deductive verification of the real code:
  vx extract (real bodies from /repo, rewrite rules logged) -> Verus -> classify ->
  known-findings filter -> canary (vacuity) -> assumption scan -> evidence/<id>.json

exit 0  every obligation discharged (or listed known finding)
exit 1  VIOLATION property=<id> replay=<path>      (an obligation that must hold fails)
exit 2  UNDECIDED (lost anchor, unsupported construct, rlimit, unstable proof, vacuity) - never an alarm
"""
import hashlib
import json
import os
import re
import subprocess
import sys
import time
from concurrent.futures import ThreadPoolExecutor

ROOT = os.path.dirname(os.path.abspath(__file__))
REPO = os.environ.get("VERIF_REPO", "/repo")
BUILD = os.path.join(ROOT, "build") if os.path.realpath(REPO) == "/repo" else os.path.join(ROOT, "build", "scratch_" + re.sub(r"\W", "_", os.path.realpath(REPO)))  # scratch-copy runs never share files with runs on /repo
VX = os.path.join(ROOT, "vx", "target", "release", "vx")
VERUS_FLAGS = ["--edition", "2024", "--triggers-mode", "silent", "--output-json", "--time",
               "--error-format=json", "--multiple-errors", "200"]

SMT_KINDS = [
    "postcondition not satisfied", "precondition not satisfied", "invariant not satisfied",
    "assertion failed", "possible arithmetic underflow/overflow", "possible division by zero",
    "loop invariant not", "index out of bounds", "decreases not satisfied", "unreachable",
    "possible bit shift", "recommendation not met", "cannot show invariant",
]
RESOURCE_KINDS = ["Resource limit", "rlimit", "timed out", "solver gave up", "incomplete"]


def load_cfg():
    with open(os.path.join(ROOT, "properties_cfg.json")) as f:
        return json.load(f)


def sh(cmd, cwd=None, timeout=None, env=None):
    p = subprocess.run(cmd, cwd=cwd, stdout=subprocess.PIPE, stderr=subprocess.PIPE, timeout=timeout, env=env)
    return p.returncode, p.stdout.decode("utf-8", "replace"), p.stderr.decode("utf-8", "replace")


def ensure_vx():
    if not os.path.exists(VX):
        rc, o, e = sh(["cargo", "build", "--release", "--offline"], cwd=os.path.join(ROOT, "vx"),
                      env=dict(os.environ, CARGO_NET_OFFLINE="true"))
        if rc != 0:
            print("UNDECIDED reason=cannot build vx\n" + e[-2000:])
            sys.exit(2)


def norm_ws(s):
    return re.sub(r"\s+", "", s)


DROPPED_FNS = {}


def extract(unit, canary, tag="", template=None):
    os.makedirs(BUILD, exist_ok=True)
    sfx = "_canary" if canary else ""
    out = os.path.join(BUILD, f"{unit}{tag}{sfx}.rs")
    log = os.path.join(BUILD, f"{unit}{tag}{sfx}.log.json")
    cmd = [VX, "extract", "--repo", REPO, "--unit", template or os.path.join(ROOT, "units", unit + ".vrs"), "--out", out, "--log", log]
    if canary:
        cmd.append("--canary")
    # a function under contract that no longer exists in /repo (`lost-anchor fn T::name`): its block is dropped and the rest of the
    # unit is extracted (VX_DROP_FNS); run_unit keeps the unit undecided for it unless the rest shows a failing obligation
    dropped = list(DROPPED_FNS.get(unit, []))
    for _ in range(4):
        env = dict(os.environ, VX_DROP_FNS=",".join(dropped)) if dropped else None
        p = subprocess.run(cmd, capture_output=True, text=True, env=env)
        rc, o, e = p.returncode, p.stdout, p.stderr
        m = re.search(r"lost-anchor fn (\S+)\s*$", (e.strip() or o.strip()), re.M) if rc != 0 else None
        if m and m.group(1) not in dropped:
            dropped.append(m.group(1))
            continue
        break
    if rc != 0:
        return None, None, (e.strip() or o.strip() or f"vx exit {rc}")
    if dropped:
        DROPPED_FNS[unit] = dropped
    with open(log) as f:
        vxlog = json.load(f)
    # a lifted closure / match arm is known to Verus (and reported) under the name it was emitted as
    for fn in vxlog.get("functions", []):
        if fn.get("emitted_as"):
            fn["lifted_from"] = f"{fn['fn']} ({fn.get('lifted', 'renamed')})"
            fn["fn"] = fn["emitted_as"]
    return out, vxlog, None


def run_verus(path, extra=(), logdir=None, timeout=1500):
    flags = list(VERUS_FLAGS)
    if "--multiple-errors" in extra:
        i = flags.index("--multiple-errors")
        del flags[i:i + 2]
    cmd = ["verus", os.path.basename(path)] + flags + list(extra)
    if logdir:
        cmd += ["--log", "air", "--log-dir", logdir]
    t0 = time.time()
    try:
        rc, o, e = sh(cmd, cwd=os.path.dirname(path), timeout=timeout)
    except subprocess.TimeoutExpired:
        return {"timeout": True, "wall": time.time() - t0, "json": None, "diags": [], "stderr": "timeout", "cmd": " ".join(cmd)}
    js = None
    try:
        js = json.loads(o)
    except Exception:
        m = o.find("{")
        if m >= 0:
            try:
                js = json.loads(o[m:])
            except Exception:
                js = None
    diags = []
    for line in e.splitlines():
        line = line.strip()
        if line.startswith("{") and '"$message_type"' in line:
            try:
                diags.append(json.loads(line))
            except Exception:
                pass
    return {"timeout": False, "wall": time.time() - t0, "json": js, "diags": diags, "stderr": e, "rc": rc, "cmd": " ".join(cmd)}


def fn_ranges(vxlog):
    rs = []
    for f in vxlog["functions"]:
        if f.get("sigonly"):
            continue
        rs.append((f["hdr_start"], f["out_end"], f))
    return rs


def locate(vxlog, line):
    for a, b, f in fn_ranges(vxlog):
        if a <= line <= b:
            return f
    return None


def src_line_of(vxlog, out_line):
    for m in vxlog["line_map"]:
        if m["out"] == out_line:
            return m["file"], m["src"]
    return None, None


LABEL_RE = re.compile(r"/\*\[([A-Za-z0-9_.+\-]+)\]\*/")


def classify(unit, vxlog, gen_lines, res):
    """returns (violations, undecided) lists. violation = dict(id, fn, kind, text, src, rendered)"""
    viol, undec = [], []
    if res["timeout"]:
        undec.append({"unit": unit, "reason": "verus timeout"})
        return viol, undec
    if res["json"] is None:
        # front-end failure: rustc / verus errors that are not verification results
        msgs = [d.get("message", "") for d in res["diags"] if d.get("level") == "error"]
        undec.append({"unit": unit, "reason": "verus produced no result (front-end error)", "messages": msgs[:8] or [res["stderr"][-1500:]]})
        return viol, undec
    for d in res["diags"]:
        if d.get("level") != "error":
            continue
        msg = d.get("message", "")
        if msg.startswith("aborting due to"):
            continue
        kind = next((k for k in SMT_KINDS if k in msg), None)
        spans = d.get("spans", [])
        prim = next((s for s in spans if s.get("is_primary")), spans[0] if spans else None)
        if kind is None:
            if any(k.lower() in msg.lower() for k in RESOURCE_KINDS):
                undec.append({"unit": unit, "reason": "resource limit: " + msg, "at": (prim or {}).get("line_start")})
            else:
                undec.append({"unit": unit, "reason": "non-verification error: " + msg,
                              "at": (prim or {}).get("line_start")})
            continue
        if prim is None:
            undec.append({"unit": unit, "reason": "diagnostic without span: " + msg})
            continue
        line = prim["line_start"]
        f = locate(vxlog, line)
        text = "".join(t["text"][t["highlight_start"] - 1:t["highlight_end"] - 1] for t in prim.get("text", [])[:1])
        if len(prim.get("text", [])) > 1:
            text = " ".join(t["text"].strip() for t in prim["text"][:3])
        label = None
        # a failed postcondition/invariant: primary or secondary span sits on the clause
        for s in spans:
            for t in s.get("text", []):
                m = LABEL_RE.search(t["text"])
                if m and (s.get("label") or "").startswith("failed this") or (m and s is prim and kind in ("postcondition not satisfied", "invariant not satisfied")):
                    label = m.group(1)
        if label is None and kind == "assertion failed" and 1 <= line <= len(gen_lines):
            m = LABEL_RE.search(gen_lines[line - 1])
            if m and "assert" in gen_lines[line - 1]:
                label = m.group(1)
        if label is None and kind in ("postcondition not satisfied", "invariant not satisfied", "assertion failed"):
            for s_ in spans:
                if s_ is prim or (s_.get("label") or "").startswith("failed this"):
                    ln = s_["line_start"]
                    for cand in (ln - 1, ln - 2):
                        if 1 <= cand <= len(gen_lines):
                            t_ = gen_lines[cand - 1].strip()
                            m = LABEL_RE.search(t_)
                            if m and (t_.startswith("/*[") or t_.startswith("assert(/*[")):
                                label = m.group(1)
                                break
                if label:
                    break
        if f is None:
            # a harness composes real functions under contract and asserts a property-level statement over their CONTRACTS
            # (decode(encode(x)) == x ...): its failing assertion is an obligation like any other
            hname = None
            for ln in range(line - 1, 0, -1):
                m = re.match(r"\s*pub (?:proof )?fn ([A-Za-z0-9_]+)", gen_lines[ln - 1])
                if m:
                    hname = m.group(1)
                    break
            if hname and hname.startswith("harness_"):
                f = {"fn": "::" + hname, "file": "(harness in units/" + unit + ".vrs)", "out_start": line, "out_end": line}
        if f is None:
            # failure in hand-written prelude/lemma text: machinery problem, not a finding
            undec.append({"unit": unit, "reason": f"obligation failed outside any function under contract (line {line}): {msg}", "text": text})
            continue
        file, src = src_line_of(vxlog, line)
        body_site = None
        if kind == "postcondition not satisfied":
            # name the exit path too when verus gives it (secondary span inside the body)
            for s in spans:
                if not s.get("is_primary") and f["out_start"] <= s["line_start"] <= f["out_end"]:
                    _, bs = src_line_of(vxlog, s["line_start"])
                    body_site = bs
        # an unlabelled invariant / assertion / postcondition supports the labelled clauses of its function: it is owned by the
        # properties those clauses name (safety obligations - overflow, division, stub preconditions - stay owned by every property)
        inherit = None
        if label is None and kind in ("postcondition not satisfied", "invariant not satisfied", "assertion failed") and f.get("hdr_start"):
            own = set()
            for gl in gen_lines[int(f["hdr_start"]) - 1:int(f["out_end"])]:
                for lm in LABEL_RE.finditer(gl):
                    os_ = lm.group(1).split(".")[0].split("+")
                    if all(re.fullmatch(r"C\d+", o) for o in os_):
                        own.update(os_)
            if own:
                inherit = sorted(own)
        oid_tail = label if label else f"{kind.replace(' ', '_')}@{norm_ws(text)[:120]}"
        oid = f"{unit}/{f['fn']}/{oid_tail}"
        viol.append({"id": oid, "fn": f["fn"], "kind": kind, "label": label, "inherited_owners": inherit, "text": text.strip(),
                     "src_file": f["file"], "src_line": src or body_site, "gen_line": line,
                     "rendered": d.get("rendered", "")})
    # de-duplicate ids (several exit paths may fail the same clause)
    seen, out = set(), []
    for v in viol:
        if v["id"] in seen:
            continue
        seen.add(v["id"])
        out.append(v)
    return out, undec


def breakdown(res):
    fb = {}
    js = res["json"] or {}
    try:
        for m in js["times-ms"]["smt"]["smt-run-module-times"]:
            for f in m.get("function-breakdown", []):
                fb[f["function"]] = f
    except Exception:
        pass
    return fb


def air_counts(logdir):
    """obligations per function = number of (assert ..) in the AIR query of that function's body"""
    counts = {}
    if not os.path.isdir(logdir):
        return counts
    for fn in os.listdir(logdir):
        if not fn.endswith(".air"):
            continue
        cur = None
        with open(os.path.join(logdir, fn), errors="replace") as f:
            for line in f:
                if line.startswith(";; Function-Def "):
                    cur = line[len(";; Function-Def "):].strip()
                    counts.setdefault(cur, 0)
                elif line.startswith(";; Function-") or line.startswith(";; Module"):
                    cur = None
                elif cur is not None:
                    counts[cur] += line.count("(assert")
    return counts


def scan_assumptions(gen_text):
    """mechanical scan of the generated file for everything that is assumed rather than proved"""
    lines = gen_text.splitlines()
    items, hard = [], []
    for i, l in enumerate(lines):
        s = l.strip()
        if s.startswith("//"):
            continue
        if "external_body" in s or "external_fn_specification" in s or "external_type_specification" in s:
            name = "?"
            for j in range(i, min(i + 6, len(lines))):
                m = re.search(r"\b(fn|struct|enum)\s+([A-Za-z0-9_]+)", lines[j])
                if m:
                    name = m.group(1) + " " + m.group(2)
                    break
            items.append(f"external_body {name}")
        if "assume_specification" in s:
            m = re.search(r"assume_specification\s*(<[^>]*>)?\s*\[([^\]]+)\]", s)
            items.append("assume_specification " + (m.group(2).strip() if m else s[:80]))
        if re.search(r"\buninterp\b", s):
            m = re.search(r"fn\s+([A-Za-z0-9_]+)", s)
            items.append("uninterp spec fn " + (m.group(1) if m else s[:60]))
        if "exec_allows_no_decreases_clause" in s:
            items.append("no-termination-claim (exec_allows_no_decreases_clause)")
        if re.search(r"\b(assume|admit)\s*\(", s):
            hard.append(f"line {i+1}: {s[:100]}")
    return sorted(set(items)), hard


MISSING_METHOD = re.compile(r"no (?:method|function or associated item|associated function or constant) named `(\w+)` found for (?:struct|enum|reference|mutable reference|type) `([^`]+)`")
MISSING_FN = re.compile(r"cannot find function `(\w+)` in this scope")
MISSING_TYPE = re.compile(r"cannot find type `(\w+)` in this scope")


def base_type(t):
    t = t.replace("&mut ", "").replace("&", "").strip()
    t = re.sub(r"<.*>", "", t)
    return t.split("::")[-1].strip()


def reverse_typemap(unit):
    """opaque stand-in type -> the crate type it stands for (from the unit's `//@typemap Rc<T> => TRc` lines, includes expanded)"""
    rev = {}
    def scan(path, depth=0):
        try:
            for line in open(path):
                t = line.strip()
                if t.startswith("//@include ") and depth < 8:
                    scan(os.path.join(os.path.dirname(path), t.split(None, 1)[1].strip()), depth + 1)
                m = re.match(r"//@typemap\s+(.+?)\s*=>\s*(\w+)\s*$", t)
                if m:
                    src = m.group(1)
                    while True:
                        m2 = re.fullmatch(r"(?:Rc|Box|Arc)\s*<\s*(.+)\s*>", src)
                        if not m2:
                            break
                        src = m2.group(1)
                    if re.fullmatch(r"\w+", src):
                        rev.setdefault(m.group(2), src)
        except OSError:
            pass
    scan(os.path.join(ROOT, "units", unit + ".vrs"))
    return rev


def exists_at_baseline(file, name):
    """does `fn name` occur in `file` at the baseline commit of /repo (properties_cfg.baseline_commit)? None = cannot tell"""
    try:
        base = load_cfg().get("baseline_commit")
        if not base:
            return None
        rc, o, e = sh(["git", "-C", REPO, "show", f"{base}:{file}"])
        if rc != 0:
            return None
        return re.search(r"\bfn\s+" + re.escape(name) + r"\b", o) is not None
    except Exception:
        return None


NEW_CALLEES = {}
STD_UNSUPPORTED = re.compile(r"`([^`]+)` is not supported")
_STD_AUTO = None


def std_auto_table():
    """units/prelude/std_auto.tsv: Verus path of a std function vstd does not specify -> the specification added on demand"""
    global _STD_AUTO
    if _STD_AUTO is None:
        _STD_AUTO = {}
        try:
            for l in open(os.path.join(ROOT, "units", "prelude", "std_auto.tsv")):
                if l.startswith("#") or "\t" not in l:
                    continue
                k, v = l.rstrip("\n").split("\t", 1)
                _STD_AUTO[k] = v
        except OSError:
            pass
    return _STD_AUTO


DEFSPEC_FNS = {}


def defspec_candidate(file, name):
    """is `fn name` in `file` a small pure predicate whose body can be read as its own specification? (no receiver, parameters of
    primitive types by value, body one expression built from comparisons, boolean/arithmetic operators, literals and the parameters)"""
    try:
        src = open(os.path.join(REPO, file)).read()
    except OSError:
        return False
    m = re.search(r"\bfn\s+" + re.escape(name) + r"\s*\(([^)]*)\)\s*->\s*([\w:]+)\s*\{", src)
    if not m:
        return False
    params, ret = m.group(1), m.group(2)
    prim = r"(?:bool|char|u8|u16|u32|u64|usize|i8|i16|i32|i64|isize)"
    if "self" in params or not re.fullmatch(prim, ret):
        return False
    for prm in [x.strip() for x in params.split(",") if x.strip()]:
        if not re.fullmatch(r"\w+\s*:\s*" + prim, prm):
            return False
    depth, i = 1, m.end()
    while i < len(src) and depth:
        depth += {"{": 1, "}": -1}.get(src[i], 0)
        i += 1
    body = re.sub(r"//[^\n]*", "", src[m.end():i - 1]).strip()
    if ";" in body or "{" in body or re.search(r"[A-Za-z_]\w*\s*\(", body) or re.search(r"\.\s*[A-Za-z_]", body):
        return False
    return bool(re.fullmatch(r"[\w\s'\\(),|&=!<>+\-*/%]*", body)) and len(body) < 400


def auto_stub_text(res, unit=None):
    """From rustc's 'no method named X found for T' diagnostics, build contract-free stubs whose signatures are copied
    from the crate (DESIGN 2.1 'stub closure'): a function under contract that starts calling something new is then
    verified against a callee about which nothing is assumed, instead of being undecided."""
    pieces, seen = [], set()
    for d in res["diags"]:
        if d.get("level") != "error":
            continue
        msg = d.get("message", "")
        m = MISSING_METHOD.search(msg)
        if m:
            name, ty = m.group(1), base_type(m.group(2))
            # a type with one lifetime parameter (`JsonTokenizer<'_>`): the impl block of the stub repeats it
            impl_hdr = f"impl<'vxa> {ty}<'vxa>" if re.search(r"<\s*'[\w_]+\s*>", m.group(2)) else f"impl {ty}"
            src_ty = (reverse_typemap(unit) if unit else {}).get(ty, ty)
            rc, o, e = sh([VX, "locate", "--repo", REPO, "--type", src_ty, "--fn", name])
            hits = [l.split("\t") for l in o.splitlines() if l.strip()]
            hits = [h for h in hits if h[1] == "-"] or hits
            if len(hits) >= 1 and (ty, name) not in seen:
                seen.add((ty, name))
                if exists_at_baseline(hits[0][0], name) is False:
                    if defspec_candidate(hits[0][0], name):
                        # a new pure predicate: brought in with its body and a definitional contract (verified, nothing assumed)
                        DEFSPEC_FNS.setdefault(unit, set()).add(name)
                        pieces.append(f"{impl_hdr} {{\n    //@fn {hits[0][0]} {src_ty}::{name} defspec\n    //@end\n}}")
                        continue
                    NEW_CALLEES.setdefault(unit, set()).add(name)
                pieces.append(f"{impl_hdr} {{\n    #[verifier::external_body]\n    //@fn {hits[0][0]} {src_ty}::{name} sigonly\n    //@end\n}}")
            continue
        m = MISSING_FN.search(msg)
        if m:
            name = m.group(1)
            rc, o, e = sh([VX, "locate", "--repo", REPO, "--type", "", "--fn", name])
            hits = [l.split("\t") for l in o.splitlines() if l.strip()]
            if len(hits) == 1 and ("", name) not in seen:
                seen.add(("", name))
                if exists_at_baseline(hits[0][0], name) is False:
                    if defspec_candidate(hits[0][0], name):
                        DEFSPEC_FNS.setdefault(unit, set()).add(name)
                        pieces.append(f"//@fn {hits[0][0]} ::{name} defspec\n//@end")
                        continue
                    NEW_CALLEES.setdefault(unit, set()).add(name)
                pieces.append(f"#[verifier::external_body]\n//@fn {hits[0][0]} ::{name} sigonly\n//@end")
            continue
        m = STD_UNSUPPORTED.search(msg)
        if m:
            spec = std_auto_table().get(m.group(1))
            if spec and ("std", m.group(1)) not in seen:
                seen.add(("std", m.group(1)))
                pieces.append(f"// std function without a vstd specification, now called by a function under contract: {m.group(1)} (units/prelude/std_auto.tsv)\n{spec}")
            continue
        m = MISSING_TYPE.search(msg)
        if m and ("type", m.group(1)) not in seen:
            seen.add(("type", m.group(1)))
            pieces.append(f"#[verifier::external_body] pub struct {m.group(1)} {{ _p: () }}")
    return pieces


def with_auto_stubs(unit, pieces_all):
    src = open(os.path.join(ROOT, "units", unit + ".vrs")).read()
    marker = "} // verus!"
    k = src.rfind(marker)
    body = "\n// vx-auto: stubs for callees that appeared in a function under contract (signature from /repo, NO contract)\n" + "\n".join(pieces_all) + "\n"
    path = os.path.join(ROOT, "units", f".auto_{unit}_{os.getpid()}.vrs")
    with open(path, "w") as f:
        f.write(src[:k] + body + src[k:])
    return path


RUST_KW = {"if", "while", "for", "match", "loop", "return", "assert", "Some", "None", "Ok", "Err", "Tracked", "Ghost", "forall", "exists", "old", "final",
           "proof", "let", "fn", "requires", "ensures", "invariant", "decreases", "choose", "Seq", "Map", "Set", "reveal", "assume", "implies", "by"}


# std methods vstd gives a specification to (a body that starts using one of them is still a body Verus reads with full knowledge)
STD_SPECIFIED = {"insert", "push", "len", "is_some", "is_none", "is_ok", "is_err", "unwrap", "get", "contains_key", "remove", "pop", "clear",
                 "iter", "keys", "values", "last", "first", "is_empty", "as_ref", "take", "expect", "unwrap_or", "new", "with_capacity"}


def called_names(text):
    """names applied to an argument list in a piece of generated text (method / function / macro-free calls)"""
    text = re.sub(r"/\*.*?\*/", " ", text, flags=re.S)
    text = re.sub(r"//[^\n]*", " ", text)
    text = re.sub(r'"(?:[^"\\]|\\.)*"', '""', text)
    return set(n_ for n_ in re.findall(r"\b([A-Za-z_][A-Za-z0-9_]*)\s*(?:::\s*<[^>]*>\s*)?\(", text) if n_ not in RUST_KW)


_BASE_CACHE = {}


def baseline_calls(unit):
    """per function (short emitted name) the names called in its body as generated from the baseline commit of /repo;
    None when the baseline cannot be produced (then the lost-exprmap rule stays conservative)"""
    if unit in _BASE_CACHE:
        return _BASE_CACHE[unit]
    res = None
    try:
        commit = load_cfg().get("baseline_commit")
        if commit:
            bdir = os.path.join(BUILD, f"baseline_{commit}")
            if not os.path.isdir(os.path.join(bdir, "runtime")):
                os.makedirs(bdir, exist_ok=True)
                ar = subprocess.run(["git", "-C", "/repo", "archive", commit, "runtime", "rinklecate", "compiler"], capture_output=True)
                if ar.returncode == 0:
                    subprocess.run(["tar", "-x", "-C", bdir], input=ar.stdout, check=True)
            if os.path.isdir(os.path.join(bdir, "runtime")):
                out = os.path.join(bdir, f"{unit}.rs")
                log = os.path.join(bdir, f"{unit}.log.json")
                rc, o, e = sh([VX, "extract", "--repo", bdir, "--unit", os.path.join(ROOT, "units", unit + ".vrs"), "--out", out, "--log", log])
                if rc == 0:
                    gl = open(out).read().splitlines()
                    vl = json.load(open(log))
                    res = {}
                    for f in vl["functions"]:
                        if f.get("sigonly") or not f.get("out_start"):
                            continue
                        nm = (f.get("emitted_as") or f["fn"]).split("::")[-1]
                        res.setdefault(nm, set()).update(called_names("\n".join(gl[int(f["out_start"]) - 1:int(f["out_end"])])))
    except Exception:
        res = None
    _BASE_CACHE[unit] = res
    return res


def run_unit(unit, tier, seed):
    try:
        return run_unit_inner(unit, tier, seed)
    finally:
        p = os.path.join(ROOT, "units", f".auto_{unit}_{os.getpid()}.vrs")
        if os.path.exists(p):
            os.remove(p)


def run_unit_inner(unit, tier, seed):
    t0 = time.time()
    r = {"unit": unit, "violations": [], "undecided": [], "functions": [], "assumptions": [], "rewrites": [], "stubs": [],
         "obligations": 0, "failed": 0, "canary_ok": False, "solver_ms": 0, "cmds": []}
    out, vxlog, err = extract(unit, False)
    if err:
        r["undecided"].append({"unit": unit, "reason": "extraction: " + err})
        return r
    cout, cvxlog, cerr = extract(unit, True)
    if cerr:
        r["undecided"].append({"unit": unit, "reason": "canary extraction: " + cerr})
        return r
    gen_text = open(out).read()
    gen_lines = gen_text.splitlines()
    assumptions, hard = scan_assumptions(gen_text)
    r["assumptions"] = assumptions
    if hard:
        r["undecided"].append({"unit": unit, "reason": "assume/admit present in unit text (machinery error)", "sites": hard})
        return r
    logdir = os.path.join(BUILD, f"air_{unit}")
    subprocess.run(["rm", "-rf", logdir])
    with ThreadPoolExecutor(max_workers=2) as ex:
        fut_main = ex.submit(run_verus, out, (), logdir)
        fut_can = ex.submit(run_verus, cout, ("--multiple-errors", "0", "--rlimit", "1"))
        res = fut_main.result()
        cres = fut_can.result()
    r["cmds"].append(res["cmd"])
    auto_pieces = []
    rounds = 0
    while not res["timeout"] and rounds < 4:
        pieces = [p for p in auto_stub_text(res, unit) if p not in auto_pieces]
        if not pieces:
            break
        auto_pieces += pieces
        rounds += 1
        tpl = with_auto_stubs(unit, auto_pieces)
        out, vxlog, err = extract(unit, False, template=tpl)
        if err:
            r["undecided"].append({"unit": unit, "reason": "extraction (after auto-stubs): " + err})
            return r
        cout, cvxlog, cerr = extract(unit, True, template=tpl)
        gen_text = open(out).read()
        gen_lines = gen_text.splitlines()
        assumptions, hard = scan_assumptions(gen_text)
        r["assumptions"] = assumptions
        subprocess.run(["rm", "-rf", logdir])
        with ThreadPoolExecutor(max_workers=2) as ex:
            fut_main = ex.submit(run_verus, out, (), logdir)
            fut_can = ex.submit(run_verus, cout, ("--multiple-errors", "0", "--rlimit", "1"))
            res = fut_main.result()
            cres = fut_can.result()
    r["auto_stubs"] = auto_pieces
    viol, undec = classify(unit, vxlog, gen_lines, res)
    if any(u["reason"].startswith("resource limit") for u in undec):
        # a failing obligation often exhausts the default budget before Z3 reports it: one retry with 10x the budget
        subprocess.run(["rm", "-rf", logdir])
        res = run_verus(out, ("--rlimit", "100"), logdir)
        r["cmds"].append(res["cmd"])
        viol, undec = classify(unit, vxlog, gen_lines, res)
    # a function under contract that now calls a function which did not exist at the baseline commit (extract-method
    # refactor, or new behaviour): it was verified against a callee about which nothing is known, so a failing obligation
    # there decides nothing -> undecided, not a violation
    newc = NEW_CALLEES.get(unit, set())
    if newc and viol:
        keep = []
        for v in viol:
            f_ = next((f for f in vxlog["functions"] if f["fn"] == v["fn"] and not f.get("sigonly")), None)
            body = "\n".join(gen_lines[int(f_["out_start"]) - 1:int(f_["out_end"])]) if f_ and f_.get("out_start") else ""
            used = [n for n in newc if re.search(r"\b" + re.escape(n) + r"\s*\(", body)]
            if used:
                undec.append({"unit": unit, "reason": "obligation failed in a function that calls code which did not exist at the baseline commit (no contract to verify against)", "id": v["id"], "new_callees": used})
            else:
                keep.append(v)
        viol = keep
    # a stand-in written for a function (fn-local //@exprmap) whose key text no longer occurs in the body: the code it stood
    # for was rewritten, and what replaced it reaches Verus unmodelled (std calls without specification, trait objects). A
    # failing obligation in that function then says nothing about the property -> undecided (lost anchor), never a violation.
    # On the unchanged tree no fn-local exprmap is unused, so this costs nothing there.
    lost = {}
    for x in vxlog.get("unused_local_exprmaps", []):
        if x.get("exprmap"):
            # the name Verus knows the function by: the rename= of a lifted piece, else the function's own name
            key = x["rename"] if x.get("rename") else x.get("fn", "").split("::")[-1]
            lost.setdefault(key, []).append(x["exprmap"])
    if lost and viol:
        # ... but only when what replaced the mapped code brought calls into the body that the unit knows nothing about:
        # names called in the function's generated body now, that were not called in the body generated from the baseline
        # commit and that the generated unit does not define. A stand-in that is simply gone (statement deleted, condition
        # rewritten over names the unit already knows) leaves a body Verus reads as before: its failures stand.
        base = baseline_calls(unit)
        gen_text = "\n".join(gen_lines)
        defined = set(re.findall(r"\bfn\s+([A-Za-z_][A-Za-z0-9_]*)", gen_text))
        # std functions the unit gives a specification to (`assume_specification [T::name]`) are modelled as well
        defined |= set(re.findall(r"assume_specification\s*(?:<[^>\[]*>)?\s*\[[^\]]*?(\w+)\s*\]", gen_text))
        keep = []
        for v in viol:
            short = v["fn"].split("::")[-1]
            hit = lost.get(short, [])
            if hit:
                f_ = next((f for f in vxlog["functions"] if f["fn"] == v["fn"] and not f.get("sigonly")), None)
                body = "\n".join(gen_lines[int(f_["out_start"]) - 1:int(f_["out_end"])]) if f_ and f_.get("out_start") else ""
                now = called_names(body)
                foreign = sorted(n_ for n_ in now if n_ not in defined and n_ not in STD_SPECIFIED and (base is None or n_ not in base.get(short, set())))
                # a stand-in keyed on a whole macro call (a print statement with its format string, R7 on macros) that no longer
                # matches: the statement was reworded or re-argued, R5 turned it into `print_opaque()`, and what it now prints is
                # unknown to the unit -> undecided as well
                macro_lost = [k for k in hit if re.search(r"\b\w+\s*!\s*\(", k)]
                if base is None or foreign or macro_lost:
                    undec.append({"unit": unit, "reason": "obligation failed in a function one of whose stand-ins no longer matches the code, and the code that replaced it calls names the unit has no model of (lost anchor //@exprmap)",
                                  "id": v["id"], "exprmap": hit[:3], "unmodelled_calls": foreign[:6]})
                    continue
            keep.append(v)
        viol = keep
    fb = breakdown(res)
    counts = air_counts(logdir)
    subprocess.run(["rm", "-rf", logdir])
    crate = unit
    total_obl = 0
    fuc_names = []
    for f in vxlog["functions"]:
        if f.get("sigonly"):
            r["stubs"].append({"fn": f["fn"], "signature_from": f"{f['file']}:{f['src_line']}", "assumed_contract": f.get("contract", "").strip()})
            continue
        fuc_names.append(f["fn"])
    # match verus function names (crate::Type::name) to FUC names (Type::name or ::name)
    def verus_name(fn):
        return fn.lstrip(":")
    for f in vxlog["functions"]:
        if f.get("sigonly"):
            continue
        vn = verus_name(f["fn"])
        hit = [k for k in fb if k.endswith("::" + vn) or k == f"{crate}::{vn}"]
        info = fb.get(hit[0]) if hit else None
        ob = 0
        for k, c in counts.items():
            if k.endswith("::" + vn) or k == f"{crate}::{vn}":
                ob += c
        nfail = len([v for v in viol if v["fn"] == f["fn"]])
        r["functions"].append({
            "fn": f["fn"], "file": f["file"], "src_line": f["src_line"], **({"lifted_from": f["lifted_from"]} if f.get("lifted_from") else {}),
            "sha256_body_tokens": hashlib.sha256(f["body_tokens"].encode()).hexdigest()[:16],
            "obligations": ob, "failed": nfail,
            "verus_success": (info or {}).get("success"), "time_us": (info or {}).get("time-micros"), "rlimit": (info or {}).get("rlimit"),
            "loops": f.get("loops", []),
        })
        total_obl += ob
        r["solver_ms"] += ((info or {}).get("time-micros") or 0) / 1000.0
        if info is None and res["json"] is not None:
            # impl-trait functions are named differently by verus (impl&%N); tolerate but record
            r["functions"][-1]["note"] = "no per-function solver record matched by name"
    r["obligations"] = total_obl
    r["rewrites"] = vxlog["rewrites"]
    r["types"] = vxlog["types"]
    # ---- canary: every FUC must FAIL when `ensures false` is added, every loop must reach its body
    cfb = breakdown(cres)
    can_bad = []
    c_front = [d.get("message", "") for d in cres["diags"] if d.get("level") == "error" and d.get("code")]
    if cres["json"] is None or cres["timeout"]:
        can_bad.append("canary run produced no result")
    elif c_front:
        can_bad.append("canary file did not compile: " + c_front[0][:200])
    else:
        cerr_lines = set()
        for d in cres["diags"]:
            if d.get("level") == "error":
                for s_ in d.get("spans", []):
                    cerr_lines.add(s_["line_start"])
        cgen = open(cout).read().splitlines()
        failed_fns = set(v["fn"] for v in viol)
        for f in cvxlog["functions"]:
            if f.get("sigonly") or f["fn"] in failed_fns:
                continue  # a function with a real failing obligation cannot be judged for vacuity (first error only)
            for c in f.get("canaries", []):
                if c["kind"] == "ensures_false":
                    if not [l for l in cerr_lines if c["start"] <= l <= c["end"]]:
                        can_bad.append(f"{f['fn']}: `ensures false` verified (contradictory requires / body never returns)")
                else:
                    aline = [i + 1 for i in range(c["start"] - 1, c["end"]) if "VXCANARY-LOOP" in cgen[i]]
                    if not aline:
                        can_bad.append(f"{f['fn']}: {c['kind']} canary assert not emitted")
                    elif aline[0] not in cerr_lines and not [l for l in cerr_lines if c["start"] <= l <= c["start"] + 3]:
                        # (an rlimit error reported on the copy's header also means `false` was not proved)
                        can_bad.append(f"{f['fn']}: {c['kind']} body `assert(false)` verified (contradictory invariant or unreachable loop)")
    r["canary_ok"] = not can_bad
    if can_bad:
        undec.append({"unit": unit, "reason": "vacuity guard", "details": can_bad})
    # ---- stability: a candidate violation must fail under other seeds / doubled rlimit too
    if viol and not undec:
        # Verus reports only the first few failing obligations of a function, and which ones it reports varies with the seed:
        # an obligation is stable when, under each other seed, it fails again OR the same function fails with another obligation
        # of the same property ownership (the function's proof does not go through under any seed)
        stable_ids = set(v["id"] for v in viol)
        for k in (seed + 1, seed + 2):
            res2 = run_verus(out, ("--smt-option", f"smt.random_seed={k % 1000}", "--rlimit", "20"))
            v2, u2 = classify(unit, vxlog, gen_lines, res2)
            ids2 = set(v["id"] for v in v2)
            fns2 = set(v["fn"] for v in v2)
            # a rerun that ran out of resources inside a function has not verified it either
            for u_ in u2:
                if u_.get("reason", "").startswith("resource limit") and u_.get("at"):
                    f_ = next((f for f in vxlog["functions"] if not f.get("sigonly") and f.get("hdr_start") and int(f["hdr_start"]) <= int(u_["at"]) <= int(f.get("out_end", 0))), None)
                    if f_:
                        fns2.add(f_["fn"])
            stable_ids = set(i for i in stable_ids if i in ids2 or next(v["fn"] for v in viol if v["id"] == i) in fns2)
        unstable = [v for v in viol if v["id"] not in stable_ids]
        viol = [v for v in viol if v["id"] in stable_ids]
        for v in unstable:
            undec.append({"unit": unit, "reason": "unstable obligation (fails under some seeds only)", "id": v["id"]})
    if tier == "thorough" and not undec and not viol and REPO == "/repo":
        # reachability of every labelled assertion spliced into a body: `assert(false)` at the same spot must fail
        try:
            import audit_asserts
            bad = [lab for lab, verdict in audit_asserts.audit_unit(unit) if verdict == "UNREACHABLE"]
            r["spliced_assertions_audited"] = True
            if bad:
                undec.append({"unit": unit, "reason": "vacuity guard: a spliced assertion sits where `assert(false)` also verifies (unreachable spot or resource limit)", "labels": bad})
        except Exception as e:  # the audit is an extra; its own failure decides nothing
            r["spliced_assertions_audited"] = f"audit failed: {e}"
    if tier == "thorough" and not undec:
        # second opinions: 3 seeds + cvc5 (cvc5-only failure = undecided)
        for k in (seed + 11, seed + 12, seed + 13):
            res3 = run_verus(out, ("--smt-option", f"smt.random_seed={k % 1000}"))
            v3, u3 = classify(unit, vxlog, gen_lines, res3)
            ids = set(v["id"] for v in viol)
            extra = [v for v in v3 if v["id"] not in ids]
            for v in extra:
                undec.append({"unit": unit, "reason": f"seed {k}: obligation fails only under this seed", "id": v["id"]})
            r["cmds"].append(res3["cmd"])
    for d in vxlog.get("dropped_fns", []):
        undec.append({"unit": unit, "reason": f"lost anchor: function under contract {d} no longer exists in the source; its contract was dropped and the rest of the unit verified without it"})
    r["violations"] = viol
    r["failed"] = len(viol)
    r["undecided"] = undec
    r["wall_s"] = time.time() - t0
    r["verus_version"] = ((res["json"] or {}).get("verus") or {}).get("version")
    return r


def load_known():
    kf, fixed = {}, []
    p = os.path.join(ROOT, "known_findings.txt")
    if os.path.exists(p):
        for line in open(p):
            line = line.strip()
            if not line or line.startswith("#"):
                continue
            if line.startswith("fixed:"):
                fixed.append(line)
                continue
            m = re.match(r"finding:\s*property=(\S+)\s+(\S+)\s+(.*)", line)
            if m:
                kf.setdefault(m.group(1), {})[m.group(2)] = m.group(3)
    return kf, fixed


def main():
    if len(sys.argv) < 2:
        print(__doc__)
        sys.exit(64)
    global BUILD
    # every property (and every --unit run) has a build directory of its own: checks may run side by side
    BUILD = os.path.join(BUILD, ("unit_" + sys.argv[2]) if sys.argv[1] == "--unit" and len(sys.argv) > 2 else sys.argv[1])
    if sys.argv[1] == "--unit":
        # one unit, every obligation whatever property owns it (used by strength.py); no evidence, no replay files
        r = run_unit(sys.argv[2], "quick", 0)
        for v in r["violations"]:
            print(f"FAILED {v['id']}")
        for u in r["undecided"]:
            print("UNDECIDED " + json.dumps(u)[:300])
        sys.exit(1 if r["violations"] else (2 if r["undecided"] else 0))
    pid = sys.argv[1]
    tier = sys.argv[2] if len(sys.argv) > 2 else os.environ.get("VERIF_TIER", "quick")
    seed = int(os.environ.get("VERIF_SEED", "0") or 0)
    cfg = load_cfg()
    if pid not in cfg["properties"]:
        print(f"UNDECIDED property {pid} has no check (see MANIFEST not_applicable)")
        sys.exit(2)
    pc = cfg["properties"][pid]
    ensure_vx()
    t0 = time.time()
    units = pc["units"]
    with ThreadPoolExecutor(max_workers=min(8, len(units))) as ex:
        results = list(ex.map(lambda u: run_unit(u, tier, seed), units))
    # ---- inventories: new code the contracts do not know about makes the check undecided (never green, never an alarm)
    inv_undecided, inv_info = [], {}
    if pc.get("inventory") == "hash_iteration":
        import inventory
        listed = {}
        for line in open(os.path.join(ROOT, "specs", "c03_iteration_sites.txt")):
            if line.strip() and not line.startswith("#") and " ## " in line:
                k, v = line.rsplit(" ## ", 1)
                listed[k.strip()] = v.strip()
        sites = inventory.hash_iteration_sites(REPO)
        for st in sites:
            if st["key"] not in listed:
                inv_undecided.append({"unit": "inventory", "reason": "HashMap/HashSet iteration site not classified (specs/c03_iteration_sites.txt)", "site": st["key"], "at": f"{st['file']}:{st['line']}"})
        inv_info = {"hash_iteration_sites": len(sites), "classified": len([x for x in sites if x["key"] in listed]),
                    "under_contract": len([x for x in sites if listed.get(x["key"], "").startswith("fuc:")])}
    if pc.get("inventory") == "pub_mut_api":
        import inventory
        covered = set(pc.get("api_covered", [])) | set(pc.get("api_exempt", {}).keys())
        api = inventory.pub_mut_api(REPO)
        for a in api:
            if a["fn"] not in covered:
                inv_undecided.append({"unit": "inventory", "reason": "public `&mut self` method of Story without a guard contract or an exemption", "fn": a["fn"], "file": a["file"]})
        inv_info = {"pub_mut_methods": len(api), "covered_or_exempt": len([a for a in api if a["fn"] in covered])}
    if pc.get("inventory") == "json_prints":
        import inventory
        prints = inventory.json_prints(REPO)
        safe_join = set(pc.get("escaped_part_vectors", []))
        bad = 0
        for pr in prints:
            # split the argument list at top-level commas
            args, depth, cur, instr = [], 0, "", False
            for ch in pr["args"]:
                if ch == '"':
                    instr = not instr
                if not instr:
                    if ch in "([{":
                        depth += 1
                    elif ch in ")]}":
                        depth -= 1
                    elif ch == "," and depth == 0:
                        args.append(cur.strip()); cur = ""; continue
                cur += ch
            if cur.strip():
                args.append(cur.strip())
            # inline captures `{name}` / `{name:?}` in the format string are interpolated values too
            for cap in re.findall(r"(?<!\{)\{([A-Za-z_][A-Za-z0-9_]*)(?::[^}]*)?\}(?!\})", pr["format"].replace("{{", "\x00").replace("}}", "\x01")):
                args.append(cap)
            for a in args:
                a0 = a.rstrip(") ")
                ok = a0.startswith("escape_json_string(") or a0.endswith(".len(") or a0.endswith(".len()") \
                    or any(a0.startswith(v + ".join(") for v in safe_join)
                if not ok:
                    bad += 1
                    inv_undecided.append({"unit": "inventory", "reason": "JSON-mode output interpolates a value that does not visibly pass through escape_json_string", "at": f"rinklecate/src/player.rs:{pr['line']}", "arg": a})
        inv_info = {"json_prints": len(prints), "unclassified_arguments": bad}
    known, _fixed = load_known()
    kprop = known.get(pid, {})
    violations, known_hit, undecided = [], [], []
    for r in results:
        # a unit may serve several properties: only obligations whose function is listed for this property count
        only = pc.get("functions", {}).get(r["unit"])
        for v in r["violations"]:
            if only and v["fn"] not in only:
                continue
            if v["label"]:
                # labelled clauses name the properties they serve: /*[C08+C13.name]*/
                owners = v["label"].split(".")[0].split("+")
                if all(re.fullmatch(r"C\d+", o) for o in owners) and pid not in owners:
                    continue
            elif v.get("inherited_owners") and pid not in v["inherited_owners"]:
                continue
            if v["id"] in kprop:
                known_hit.append((v, kprop[v["id"]]))
            else:
                violations.append(v)
        undecided += r["undecided"]
    undecided += inv_undecided
    os.makedirs(os.path.join(ROOT, "evidence"), exist_ok=True)
    os.makedirs(os.path.join(ROOT, "replays"), exist_ok=True)
    for v, what in known_hit:
        print(f"KNOWN-FINDING: property={pid} {v['id']} {what}")
    replay_paths = []
    for i, v in enumerate(violations):
        rp = os.path.join(ROOT, "replays", f"{pid}-{i}.json")
        rep = {"property": pid, "failed_obligation": v["id"], "function": v["fn"], "kind": v["kind"], "label": v["label"],
               "source": f"{v['src_file']}:{v['src_line']}", "expression": v["text"], "verifier": "verus", "verifier_output": v["rendered"],
               "failing_input": None, "note": "Verus gives no counterexample; no failing input was searched for this obligation"}
        try:
            import replay_lib  # optional witness scenarios
            w = replay_lib.witness(pid, v, REPO)
            if w:
                rep["failing_input"] = w
                rep["note"] = "witness scenario reproduced the failure on the real code"
        except ImportError:
            pass
        except Exception as ex:  # witness machinery must never turn into an alarm or hide one
            rep["note"] += f" (witness search error: {ex})"
        with open(rp, "w") as f:
            json.dump(rep, f, indent=1)
        replay_paths.append(rp)
        tail = "" if rep["failing_input"] else " no-failing-input-found"
        print(f"VIOLATION property={pid} replay={rp} obligation={v['id']}{tail}" if False else f"VIOLATION property={pid} replay={rp}{tail}")
        print(f"  failed obligation: {v['id']}  at {v['src_file']}:{v['src_line']}  `{v['text'][:100]}`")
    for u in undecided:
        print("UNDECIDED " + json.dumps(u)[:600])

    # ------------------------------------------------------------------ evidence
    fuc = []
    obligations = 0
    trusted = set()
    rewrites = []
    stubs = []
    solver_ms = 0.0
    for r in results:
        only = pc.get("functions", {}).get(r["unit"])
        for f in r["functions"]:
            if only and f["fn"] not in only:
                continue
            fuc.append(dict(f, unit=r["unit"]))
            obligations += f["obligations"]
        for a in r["assumptions"]:
            trusted.add(f"[{r['unit']}] {a}")
        rewrites += [dict(x, unit=r["unit"]) for x in r["rewrites"]]
        stubs += [dict(x, unit=r["unit"]) for x in r["stubs"]]
        solver_ms += r["solver_ms"]
    nkn = len(known_hit)
    claimed = obligations - nkn
    discharged = claimed - len(violations)
    rule_counts = {}
    for x in rewrites:
        rule_counts[x["rule"]] = rule_counts.get(x["rule"], 0) + 1
    samples = []
    for f in fuc[:6]:
        samples.append(f"{f['unit']}/{f['fn']} ({f['file']}:{f['src_line']}): {f['obligations']} obligations, verus_success={f['verus_success']}, {f['time_us']}us")
    ev = {
        "property_id": pid, "tier": tier, "seed": seed, "level": "proof",
        "coverage": {
            "obligations": max(claimed, 0), "discharged": max(discharged, 0),
            "checker_cmd": "; ".join(sorted(set(c for r in results for c in r["cmds"]))) or "verus (not run: extraction failed)",
            "trusted_base": sorted(trusted),
            "samples": samples or ["none"],
            "functions_under_contract": fuc,
            "obligation_counting": "per function: number of (assert ...) in the AIR query Verus generated for its body (pre/postconditions, invariants, overflow/div/index/unwrap checks)",
            "back_end": "verus " + str(next((r.get("verus_version") for r in results if r.get("verus_version")), "?")) + " / z3",
            "solver_time_ms": round(solver_ms, 1),
            "rewrites_applied": rule_counts,
            "rewrite_log_sample": rewrites[:12],
            "stubs_with_real_signature": stubs,
            "canary_failed_as_expected": all(r["canary_ok"] for r in results),
            "known_findings_hit": [{"id": v["id"], "what": w} for v, w in known_hit],
            "undecided": undecided,
            "auto_stubs_generated": [p for r in results for p in r.get("auto_stubs", [])],
            "inventory": inv_info,
            "not_decided_by_this_check": pc.get("not_decided", ""),
            "units": units,
        },
        "assumptions": cfg.get("global_assumptions", []) + pc.get("assumptions", []),
        "wall_s": round(time.time() - t0, 2),
        "violations": len(violations),
    }
    # runs against a scratch copy of the repository (mutation / seed evaluation) must not overwrite the evidence of /repo
    ev_dir = os.path.join(ROOT, "evidence") if os.path.realpath(REPO) == "/repo" else os.path.join(BUILD, "evidence_scratch")
    os.makedirs(ev_dir, exist_ok=True)
    with open(os.path.join(ev_dir, f"{pid}.json"), "w") as f:
        json.dump(ev, f, indent=1)
    print(f"[{pid}] units={len(units)} functions_under_contract={len(fuc)} obligations={claimed} discharged={discharged} "
          f"known_findings={nkn} violations={len(violations)} undecided={len(undecided)} wall={ev['wall_s']}s")
    if violations:
        sys.exit(1)
    if undecided or obligations == 0:
        sys.exit(2)
    sys.exit(0)


if __name__ == "__main__":
    main()
