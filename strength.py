#!/usr/bin/env python3
"""strength.py <unit> [--max N] [--jobs J] [--fn substring]
Contract-strength self-test (NOT a property check): applies small syntactic mutations to the /repo source lines of the
functions under contract in one unit (on scratch copies outside /repo), runs that unit's verification on each mutant and
reports which mutants a failing obligation kills, which leave the unit undecided and which SURVIVE (contract too weak there,
or the mutant is equivalent). Output: build/strength_<unit>.json and a summary line. /repo is never modified."""
import json, os, random, re, shutil, subprocess, sys, tempfile
from concurrent.futures import ThreadPoolExecutor

ROOT = os.path.dirname(os.path.abspath(__file__))
VX = os.path.join(ROOT, "vx", "target", "release", "vx")

OPS = [
    (r" < ", " <= "), (r" <= ", " < "), (r" > ", " >= "), (r" >= ", " > "), (r" == ", " != "), (r" != ", " == "),
    (r" && ", " || "), (r" \|\| ", " && "),
    (r" \+ 1\b", " + 2"), (r" - 1\b", ""), (r" \+ 1\b", ""),
    (r"\bif !", "if "), (r"\btrue\b", "false"), (r"\bfalse\b", "true"),
    (r"\.is_some\(\)", ".is_none()"), (r"\.is_none\(\)", ".is_some()"),
    (r"\.is_ok\(\)", ".is_err()"), (r"\.is_err\(\)", ".is_ok()"),
    (r"\.wrapping_add\(", ".wrapping_sub("), (r"\.wrapping_sub\(", ".wrapping_add("),
]
DELETE = re.compile(r"^\s*(self\.[A-Za-z0-9_\.\(\)]*\([^;]*\);|[a-z_\.]+(\.[a-z_]+)* = [^;]+;|[a-z_\.]+\.(clear|push|insert|remove)\([^;]*\);)\s*(//.*)?$")


def fuc_lines(unit):
    out = os.path.join(ROOT, "build", f"strength_{unit}.rs")
    log = os.path.join(ROOT, "build", f"strength_{unit}.log.json")
    subprocess.run([VX, "extract", "--repo", "/repo", "--unit", os.path.join(ROOT, "units", unit + ".vrs"), "--out", out, "--log", log], check=True)
    l = json.load(open(log))
    fucs = {f["fn"] for f in l["functions"] if not f.get("sigonly")}
    lines = {}
    for m in l["line_map"]:
        if m.get("fn") in fucs and m.get("src"):
            lines.setdefault(m["file"], {}).setdefault(m["src"], m["fn"])
    os.remove(out); os.remove(log)
    return lines


def mutants(unit, only_fn=None):
    res = []
    for file, ls in fuc_lines(unit).items():
        src = open(os.path.join("/repo", file)).read().split("\n")
        for ln, fn in sorted(ls.items()):
            if only_fn and only_fn not in fn:
                continue
            text = src[ln - 1]
            code = text.split("//")[0]
            if not code.strip() or '"' in code and code.count('"') >= 2 and re.search(r'"[^"]*(<|>|==|&&|true|false)[^"]*"', code):
                pass
            for pat, rep in OPS:
                m = re.search(pat, code)
                if m and not in_string(code, m.start()):
                    new = code[:m.start()] + rep + code[m.end():] + text[len(code):]
                    res.append({"file": file, "line": ln, "fn": fn, "op": f"{pat} -> {rep}", "old": text, "new": new})
            if DELETE.match(text):
                res.append({"file": file, "line": ln, "fn": fn, "op": "delete statement", "old": text, "new": ""})
    return res


def in_string(code, pos):
    return code[:pos].count('"') % 2 == 1


def run_one(args):
    unit, mu, slot = args
    d = f"/tmp/strength_{os.getpid()}_{slot}"
    if not os.path.isdir(d):
        subprocess.run(["rsync", "-a", "--exclude", "target", "--exclude", ".git", "/repo/", d + "/"], check=True)
    path = os.path.join(d, mu["file"])
    orig = open(os.path.join("/repo", mu["file"])).read()
    lines = orig.split("\n")
    lines[mu["line"] - 1] = mu["new"]
    with open(path, "w") as f:
        f.write("\n".join(lines))
    try:
        env = dict(os.environ, VERIF_REPO=d)
        p = subprocess.run([sys.executable, os.path.join(ROOT, "check.py"), "--unit", unit], capture_output=True, text=True, env=env, timeout=900)
        failed = [l[7:] for l in p.stdout.splitlines() if l.startswith("FAILED ")]
        und = [l[10:150] for l in p.stdout.splitlines() if l.startswith("UNDECIDED ")]
        verdict = {1: "killed", 0: "survived", 2: "undecided"}.get(p.returncode, "error")
    except subprocess.TimeoutExpired:
        failed, und, verdict = [], ["timeout"], "undecided"
    finally:
        with open(path, "w") as f:
            f.write(orig)
    return dict(mu, verdict=verdict, failed=failed[:3], undecided=und[:2])


def main():
    unit = sys.argv[1]
    mx = int(sys.argv[sys.argv.index("--max") + 1]) if "--max" in sys.argv else 60
    jobs = int(sys.argv[sys.argv.index("--jobs") + 1]) if "--jobs" in sys.argv else 6
    only = sys.argv[sys.argv.index("--fn") + 1] if "--fn" in sys.argv else None
    ms = mutants(unit, only)
    random.Random(1).shuffle(ms)
    ms = ms[:mx]
    slots = list(range(jobs))
    results = []
    with ThreadPoolExecutor(max_workers=jobs) as ex:
        # a slot (scratch copy) is used by one mutant at a time
        import queue
        q = queue.Queue()
        for s_ in slots:
            q.put(s_)
        def work(mu):
            s_ = q.get()
            try:
                return run_one((unit, mu, s_))
            finally:
                q.put(s_)
        for r in ex.map(work, ms):
            results.append(r)
            print(f"{r['verdict']:9} {r['fn']}:{r['line']} [{r['op']}] {r['old'].strip()[:70]}", flush=True)
    for s_ in slots:
        shutil.rmtree(f"/tmp/strength_{os.getpid()}_{s_}", ignore_errors=True)
    shutil.rmtree(os.path.join(ROOT, "build"), ignore_errors=False) if False else None
    summ = {k: len([r for r in results if r["verdict"] == k]) for k in ("killed", "survived", "undecided", "error")}
    json.dump({"unit": unit, "summary": summ, "mutants": results}, open(os.path.join(ROOT, "build", f"strength_{unit}.json"), "w"), indent=1)
    print(f"[strength {unit}] mutants={len(results)} " + " ".join(f"{k}={v}" for k, v in summ.items()))


if __name__ == "__main__":
    main()
