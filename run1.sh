#!/bin/sh
# dev helper: extract + verus one unit
u=$1; shift
./vx/target/release/vx extract --repo ${REPO:-/repo} --unit units/$u.vrs --out build/$u.rs --log build/$u.log.json || exit 2
cd build && verus $u.rs --edition 2024 --triggers-mode silent "$@" 2>&1
