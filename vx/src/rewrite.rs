//! Syntactic rewrite rules applied to real function bodies / signatures / type definitions.
//! Every application is logged (rule, source line, before, after).

use crate::printer::norm;
use proc_macro2::{Span, TokenStream};
use quote::{quote, ToTokens};
use serde_json::json;
use std::collections::{HashMap, HashSet};
use syn::spanned::Spanned;
use syn::visit_mut::{self, VisitMut};
use syn::*;

#[derive(Clone, Debug)]
pub enum AtAnchor {
    FnStart,
    FnEnd,
    LoopAfter(usize),
    LoopBefore(usize),
    LoopBodyStart(usize),
    LoopBodyEnd(usize),
    StmtBefore(String),
    StmtAfter(String),
}

#[derive(Default, Clone)]
pub struct Maps {
    pub typemap: Vec<(String, String)>,
    pub exprmap: Vec<(String, String)>,
    /// method name -> free function name (receiver becomes first argument)
    pub methodmap: HashMap<String, String>,
    /// path prefixes whose turbofish calls are mangled (R2)
    pub turbofish: HashSet<String>,
    /// opt-in (`//@litstrings`): R9 string-literal `.to_owned()` / `.to_string()` -> str_to_string(lit)
    pub litstrings: bool,
}

pub struct Rw<'a> {
    pub maps: &'a Maps,
    pub log: Vec<serde_json::Value>,
    pub used_expr: HashSet<String>,
    pub used_type: HashSet<String>,
    pub errors: Vec<String>,
}

pub fn mangle(ts: &TokenStream) -> String {
    let s = norm(ts);
    let mut out = String::new();
    for ch in s.chars() {
        match ch {
            '&' => out.push_str("ref_"),
            c if c.is_alphanumeric() || c == '_' => out.push(c),
            _ => {
                if !out.ends_with('_') {
                    out.push('_')
                }
            }
        }
    }
    out.trim_matches('_').to_string()
}

fn line_of(sp: Span) -> usize {
    if sp.byte_range().is_empty() { 0 } else { sp.start().line }
}

fn turbofish_of(seg: &PathSegment) -> Option<TokenStream> {
    if let PathArguments::AngleBracketed(a) = &seg.arguments {
        Some(a.args.to_token_stream())
    } else {
        None
    }
}

fn method_turbofish(m: &ExprMethodCall) -> Option<TokenStream> {
    m.turbofish.as_ref().map(|t| t.args.to_token_stream())
}

fn flatten_and(e: &Expr, out: &mut Vec<Expr>) {
    if let Expr::Binary(b) = e {
        if let BinOp::And(_) = b.op {
            flatten_and(&b.left, out);
            flatten_and(&b.right, out);
            return;
        }
    }
    out.push(e.clone());
}

fn build_nested(groups: &[Expr], then: &Block, els: &Option<(Token![else], Box<Expr>)>) -> ExprIf {
    if groups.len() == 1 {
        ExprIf {
            attrs: vec![],
            if_token: Default::default(),
            cond: Box::new(groups[0].clone()),
            then_branch: then.clone(),
            else_branch: els.clone(),
        }
    } else {
        let inner = build_nested(&groups[1..], then, els);
        ExprIf {
            attrs: vec![],
            if_token: Default::default(),
            cond: Box::new(groups[0].clone()),
            then_branch: Block { brace_token: Default::default(), stmts: vec![Stmt::Expr(Expr::If(inner), None)] },
            else_branch: els.clone(),
        }
    }
}

impl<'a> Rw<'a> {
    pub fn new(maps: &'a Maps) -> Self {
        Rw { maps, log: vec![], used_expr: HashSet::new(), used_type: HashSet::new(), errors: vec![] }
    }

    fn logit(&mut self, rule: &str, line: usize, before: String, after: String) {
        self.log.push(json!({"rule": rule, "src_line": line, "before": before, "after": after}));
    }

    fn macro_rewrite(&mut self, mac: &Macro) -> Option<Expr> {
        let name = mac.path.segments.last()?.ident.to_string();
        let repl: Expr = match name.as_str() {
            "format" => parse_quote!(fmt_opaque()),
            "println" | "eprintln" | "print" | "eprint" => parse_quote!(print_opaque()),
            // R8: `json!(E)` with a single expression -> `serde_json::json_of(&(E))` (a trait-dispatched stand-in whose result is
            // the documented reading of E's type); an exprmap naming this very macro call takes precedence
            "json" => {
                let key = norm(&mac.to_token_stream());
                if self.maps.exprmap.iter().any(|(k, _)| *k == key) {
                    return None;
                }
                let inner: Expr = syn::parse2(mac.tokens.clone()).ok()?;
                let mut ne: Expr = parse_quote!(serde_json::json_of(&(#inner)));
                self.logit("R8", line_of(mac.path.span()), key, norm(&ne.to_token_stream()));
                self.visit_expr_mut(&mut ne);
                return Some(ne);
            }
            _ => return None,
        };
        self.logit("R5", line_of(mac.path.span()), norm(&mac.to_token_stream()), norm(&repl.to_token_stream()));
        Some(repl)
    }
}

impl<'a> VisitMut for Rw<'a> {
    fn visit_type_mut(&mut self, t: &mut Type) {
        // unit typemap first, on the original type text
        let orig = norm(&t.to_token_stream());
        for (k, v) in &self.maps.typemap {
            if *k == orig {
                match parse_str::<Type>(v) {
                    Ok(nt) => {
                        self.used_type.insert(k.clone());
                        self.log.push(json!({"rule": "typemap", "src_line": line_of(t.span()), "before": orig, "after": v}));
                        *t = nt;
                        return;
                    }
                    Err(e) => self.errors.push(format!("typemap value `{v}` does not parse: {e}")),
                }
            }
        }
        visit_mut::visit_type_mut(self, t);
        let before = norm(&t.to_token_stream());
        // R3: RefCell<T> -> VCell<T>; Rc<VCell<T>> -> RcRefCell<T>
        if let Type::Path(tp) = t {
            if tp.qself.is_none() {
                if let Some(last) = tp.path.segments.last() {
                    let id = last.ident.to_string();
                    if id == "RefCell" {
                        if let PathArguments::AngleBracketed(a) = &last.arguments {
                            let inner = a.args.to_token_stream();
                            let nt: Type = parse_quote!(VCell<#inner>);
                            self.logit("R3", line_of(t.span()), before.clone(), norm(&nt.to_token_stream()));
                            *t = nt;
                        }
                    } else if id == "Rc" {
                        if let PathArguments::AngleBracketed(a) = &last.arguments {
                            if a.args.len() == 1 {
                                if let GenericArgument::Type(Type::Path(ip)) = &a.args[0] {
                                    if let Some(il) = ip.path.segments.last() {
                                        if il.ident == "VCell" {
                                            if let PathArguments::AngleBracketed(ia) = &il.arguments {
                                                let inner = ia.args.to_token_stream();
                                                let nt: Type = parse_quote!(RcRefCell<#inner>);
                                                self.logit("R3", line_of(t.span()), before.clone(), norm(&nt.to_token_stream()));
                                                *t = nt;
                                            }
                                        }
                                    }
                                }
                            }
                        }
                    }
                }
            }
        }
        let cur = norm(&t.to_token_stream());
        for (k, v) in &self.maps.typemap {
            if *k == cur {
                match parse_str::<Type>(v) {
                    Ok(nt) => {
                        self.used_type.insert(k.clone());
                        self.log.push(json!({"rule": "typemap", "src_line": line_of(t.span()), "before": cur, "after": v}));
                        *t = nt;
                    }
                    Err(e) => self.errors.push(format!("typemap value `{v}` does not parse: {e}")),
                }
                break;
            }
        }
    }

    fn visit_stmt_mut(&mut self, s: &mut Stmt) {
        // R7 in a `let`: an accessor call that an exprmap replaces by the PLACE it returns a reference to (`self.get_state_mut()
        // => self.state`) and that is bound to a name (`let state = self.get_state_mut();`) becomes a borrow of that place
        // (`let state = &mut self.state;`, `&` when the accessor's name does not end in `_mut`); as an expression statement,
        // receiver or argument the place itself is what Rust's auto-borrow reads
        if let Stmt::Local(l) = s {
            if let Some(init) = &mut l.init {
                if init.diverge.is_none() {
                    let cur = norm(&init.expr.to_token_stream());
                    let hit = self.maps.exprmap.iter().find(|(k, _)| *k == cur).cloned();
                    if let Some((k, v)) = hit {
                        if let Ok(pe) = parse_str::<Expr>(&v) {
                            if matches!(pe, Expr::Field(_)) && matches!(&*init.expr, Expr::MethodCall(m) if m.args.is_empty()) {
                                let is_mut = k.trim_end_matches(|c: char| c == '(' || c == ')' || c == ' ').ends_with("_mut");
                                let txt = if is_mut { format!("&mut {v}") } else { format!("&{v}") };
                                if let Ok(ne) = parse_str::<Expr>(&txt) {
                                    self.used_expr.insert(k.clone());
                                    self.log.push(json!({"rule": "R7-let", "src_line": line_of(l.let_token.span), "before": cur, "after": txt}));
                                    *init.expr = ne;
                                    return;
                                }
                            }
                        }
                    }
                }
            }
        }
        visit_mut::visit_stmt_mut(self, s);
        // R7 on a statement macro (`println!(..);`): an exprmap naming the whole macro call, in its source text, takes precedence
        // over the blanket R5 replacement
        if let Stmt::Macro(sm) = s {
            let key = norm(&sm.mac.to_token_stream());
            let hit = self.maps.exprmap.iter().find(|(k, _)| *k == key).cloned();
            if let Some((k, v)) = hit {
                match parse_str::<Expr>(&v) {
                    Ok(ne) => {
                        self.used_expr.insert(k.clone());
                        self.log.push(json!({"rule": "R7", "src_line": line_of(sm.mac.path.span()), "before": key, "after": v}));
                        *s = Stmt::Expr(ne, Some(Default::default()));
                        return;
                    }
                    Err(er) => self.errors.push(format!("exprmap value `{v}` does not parse: {er}")),
                }
            }
        }
        if let Stmt::Macro(sm) = s {
            if let Some(repl) = self.macro_rewrite(&sm.mac) {
                *s = Stmt::Expr(repl, Some(Default::default()));
            }
        }
    }

    fn visit_expr_mut(&mut self, e: &mut Expr) {
        // R7 (source-text form): an exprmap whose key is the expression exactly as written in the source (before any rule touched
        // its sub-expressions) replaces it whole; only keys that contain a macro call or a closure are tried here, since those are
        // the ones R5/R11 would otherwise blur before the ordinary R7 match below sees them
        if !self.maps.exprmap.is_empty() && matches!(e, Expr::MethodCall(_) | Expr::Macro(_) | Expr::Call(_)) {
            let cur = norm(&e.to_token_stream());
            if cur.contains('!') || cur.contains('|') {
                let hit = self.maps.exprmap.iter().find(|(k, _)| *k == cur).cloned();
                if let Some((k, v)) = hit {
                    match parse_str::<Expr>(&v) {
                        Ok(ne) => {
                            self.used_expr.insert(k.clone());
                            self.log.push(json!({"rule": "R7", "src_line": line_of(e.span()), "before": cur, "after": v}));
                            *e = ne;
                            return;
                        }
                        Err(er) => self.errors.push(format!("exprmap value `{v}` does not parse: {er}")),
                    }
                }
            }
        }
        visit_mut::visit_expr_mut(self, e);
        let line = line_of(e.span());

        // R1: let-chains in `if`
        if let Expr::If(ei) = e {
            let mut conj = vec![];
            flatten_and(&ei.cond, &mut conj);
            if conj.len() > 1 && conj.iter().any(|c| matches!(c, Expr::Let(_))) {
                // group consecutive non-let conjuncts
                let mut groups: Vec<Expr> = vec![];
                let mut pending: Option<Expr> = None;
                for c in conj {
                    if matches!(c, Expr::Let(_)) {
                        if let Some(p) = pending.take() {
                            groups.push(p);
                        }
                        groups.push(c);
                    } else {
                        pending = Some(match pending.take() {
                            None => c,
                            Some(p) => parse_quote!(#p && #c),
                        });
                    }
                }
                if let Some(p) = pending.take() {
                    groups.push(p);
                }
                let before = norm(&ei.cond.to_token_stream());
                let n = build_nested(&groups, &ei.then_branch, &ei.else_branch);
                self.logit("R1", line, before, format!("{} nested conditions", groups.len()));
                *e = Expr::If(n);
            }
        }
        if let Expr::While(w) = e {
            let mut conj = vec![];
            flatten_and(&w.cond, &mut conj);
            if conj.len() > 1 && conj.iter().any(|c| matches!(c, Expr::Let(_))) {
                self.errors.push(format!("let-chain in `while` at line {line} not supported by R1"));
            }
        }

        // R2: Type::f::<T>(..) -> Type::f_T(..)
        if let Expr::Call(c) = e {
            if let Expr::Path(p) = &mut *c.func {
                let nseg = p.path.segments.len();
                if nseg >= 2 {
                    let first = p.path.segments[0].ident.to_string();
                    if self.maps.turbofish.contains(&first) {
                        let last = p.path.segments.last_mut().unwrap();
                        if let Some(tf) = turbofish_of(last) {
                            let before = norm(&last.to_token_stream());
                            let nid = format!("{}_{}", last.ident, mangle(&tf));
                            last.ident = Ident::new(&nid, last.ident.span());
                            last.arguments = PathArguments::None;
                            self.logit("R2", line, before, nid);
                        }
                    }
                }
            }
            // R3e: Rc::new(RefCell::new(x)) -> RcRefCell::new(x) ; RefCell::new(x) -> VCell::new(x)
            let fname = norm(&c.func.to_token_stream());
            if fname == "RefCell::new" {
                let args = c.args.to_token_stream();
                let ne: Expr = parse_quote!(VCell::new(#args));
                self.logit("R3", line, norm(&e.to_token_stream()), norm(&ne.to_token_stream()));
                *e = ne;
            } else if fname == "Rc::new" && c.args.len() == 1 {
                if let Expr::Call(ic) = &c.args[0] {
                    if norm(&ic.func.to_token_stream()) == "VCell::new" {
                        let args = ic.args.to_token_stream();
                        let ne: Expr = parse_quote!(RcRefCell::new(#args));
                        self.logit("R3", line, norm(&e.to_token_stream()), norm(&ne.to_token_stream()));
                        *e = ne;
                    }
                }
            }
        }

        // R9: `"literal".to_owned()` / `"literal".to_string()` -> str_to_string("literal") (String from a literal has no vstd spec);
        // an exprmap naming this very call takes precedence
        // R9b (same opt-in): `X == "literal"` / `X != "literal"` (String or &str against a literal: no vstd spec) -> [!]vx_str_eq(&(X), "literal")
        let mut cmp_repl: Option<Expr> = None;
        if self.maps.litstrings {
            if let Expr::Binary(b) = &*e {
                let is_eq = matches!(b.op, BinOp::Eq(_));
                let is_ne = matches!(b.op, BinOp::Ne(_));
                if is_eq || is_ne {
                    let l_lit = matches!(&*b.left, Expr::Lit(ExprLit { lit: Lit::Str(_), .. }));
                    let r_lit = matches!(&*b.right, Expr::Lit(ExprLit { lit: Lit::Str(_), .. }));
                    if l_lit != r_lit {
                        let (x, lit) = if r_lit { (&b.left, &b.right) } else { (&b.right, &b.left) };
                        let key = norm(&b.to_token_stream());
                        if !self.maps.exprmap.iter().any(|(k, _)| *k == key) {
                            cmp_repl = Some(if is_eq { parse_quote!(vx_str_eq(&(#x), #lit)) } else { parse_quote!(!vx_str_eq(&(#x), #lit)) });
                        }
                    }
                }
            }
        }
        if let Some(ne) = cmp_repl {
            self.logit("R9", line, norm(&e.to_token_stream()), norm(&ne.to_token_stream()));
            *e = ne;
        }
        // R9c (same opt-in): str methods taking a char literal (`Pattern` is generic: no vstd spec can be given) -> spec'd stand-ins
        let mut chr_repl: Option<Expr> = None;
        if self.maps.litstrings {
            if let Expr::MethodCall(m) = &*e {
                let name = m.method.to_string();
                if m.args.len() == 1 && ["starts_with", "ends_with", "strip_prefix", "strip_suffix", "trim_start_matches", "trim_end_matches", "contains"].contains(&name.as_str()) {
                    // `.contains(['a', 'b'])`: an array of char literals as the pattern
                    if name == "contains" {
                        if let Expr::Array(arr) = &m.args[0] {
                            if !arr.elems.is_empty() && arr.elems.iter().all(|x| matches!(x, Expr::Lit(ExprLit { lit: Lit::Char(_), .. }))) {
                                let key = norm(&m.to_token_stream());
                                if !self.maps.exprmap.iter().any(|(k, _)| *k == key) {
                                    let recv = &m.receiver;
                                    let a = &m.args[0];
                                    chr_repl = Some(parse_quote!(vx_str_contains_any_char(#recv, &#a)));
                                }
                            }
                        }
                    }
                    if let Expr::Lit(ExprLit { lit: Lit::Char(_), .. }) = &m.args[0] {
                        let key = norm(&m.to_token_stream());
                        if !self.maps.exprmap.iter().any(|(k, _)| *k == key) {
                            let f = Ident::new(&format!("vx_str_{name}_char"), Span::call_site());
                            let recv = &m.receiver;
                            let a = &m.args[0];
                            chr_repl = Some(parse_quote!(#f(#recv, #a)));
                        }
                    }
                }
            }
        }
        if let Some(ne) = chr_repl {
            self.logit("R9", line, norm(&e.to_token_stream()), norm(&ne.to_token_stream()));
            *e = ne;
        }
        let mut lit_repl: Option<Expr> = None;
        if let Expr::MethodCall(m) = &*e {
            if self.maps.litstrings && (m.method == "to_owned" || m.method == "to_string") && m.args.is_empty() {
                if let Expr::Lit(ExprLit { lit: Lit::Str(_), .. }) = &*m.receiver {
                    let key = norm(&m.to_token_stream());
                    if !self.maps.exprmap.iter().any(|(k, _)| *k == key) {
                        let lit = &m.receiver;
                        lit_repl = Some(parse_quote!(str_to_string(#lit)));
                    }
                }
            }
        }
        if let Some(ne) = lit_repl {
            self.logit("R9", line, norm(&e.to_token_stream()), norm(&ne.to_token_stream()));
            *e = ne;
        }
        // R4: downcasts
        if let Expr::MethodCall(m) = e {
            let name = m.method.to_string();
            let tf = method_turbofish(m);
            let mut repl: Option<Expr> = None;
            if let (Some(tf), Expr::MethodCall(inner)) = (&tf, &*m.receiver) {
                let iname = inner.method.to_string();
                let x = &inner.receiver;
                let t = mangle(tf);
                if name == "is" && iname == "as_any" {
                    let f = Ident::new(&format!("kind_is_{t}"), Span::call_site());
                    repl = Some(parse_quote!(#f(#x)));
                } else if name == "downcast_ref" && iname == "as_any" {
                    let f = Ident::new(&format!("as_{t}"), Span::call_site());
                    repl = Some(parse_quote!(#f(#x)));
                } else if name == "downcast" && iname == "into_any" {
                    let f = Ident::new(&format!("into_{t}"), Span::call_site());
                    repl = Some(parse_quote!(#f(#x)));
                }
            }
            if let Some(r) = repl {
                self.logit("R4", line, norm(&e.to_token_stream()), norm(&r.to_token_stream()));
                *e = r;
            } else if let Some(fname) = self.maps.methodmap.get(&name) {
                // R10: method -> prelude function
                // value forms: `f` (receiver by value/autoref as written), `&mut f` / `& f` (receiver re-borrowed)
                let (borrow, fname) = if let Some(x) = fname.strip_prefix("&mut ") { (2, x.trim().to_string()) }
                    else if let Some(x) = fname.strip_prefix("& ") { (1, x.trim().to_string()) } else { (0, fname.clone()) };
                let full = match &tf {
                    Some(tf) => format!("{}_{}", fname, mangle(tf)),
                    None => fname.clone(),
                };
                let f: syn::Path = match parse_str(&full) {
                    Ok(p) => p,
                    Err(er) => { self.errors.push(format!("methodmap target `{full}`: {er}")); return; }
                };
                let recv0 = &m.receiver;
                let recv: Expr = match borrow { 2 => parse_quote!(&mut #recv0), 1 => parse_quote!(& #recv0), _ => parse_quote!(#recv0) };
                let args = &m.args;
                let r: Expr = if args.is_empty() { parse_quote!(#f(#recv)) } else { parse_quote!(#f(#recv, #args)) };
                self.logit("R10", line, norm(&e.to_token_stream()), norm(&r.to_token_stream()));
                *e = r;
            }
        }

        // R15: `match E { "a" | "b" => X, "c" => Y, _ => Z }` over string literals (Verus accepts such patterns but knows nothing about
        // them) -> `{ let __vx_scrut: &str = E; if vx_str_is(__vx_scrut, "a") || vx_str_is(__vx_scrut, "b") { X } else if .. else { Z } }`.
        // A match with a string-literal pattern that is not of this shape (guards, a binding catch-all) is refused (undecided).
        if let Expr::Match(m) = e {
            fn lits(p: &Pat, out: &mut Vec<syn::LitStr>) -> bool {
                match p {
                    Pat::Lit(l) => { if let Lit::Str(s) = &l.lit { out.push(s.clone()); true } else { false } }
                    Pat::Or(o) => o.cases.iter().all(|c| lits(c, out)),
                    Pat::Paren(pp) => lits(&pp.pat, out),
                    _ => false,
                }
            }
            fn mentions_strlit(p: &Pat) -> bool {
                match p {
                    Pat::Lit(l) => matches!(l.lit, Lit::Str(_)),
                    Pat::Or(o) => o.cases.iter().any(mentions_strlit),
                    Pat::Paren(pp) => mentions_strlit(&pp.pat),
                    _ => false,
                }
            }
            if m.arms.iter().any(|a| mentions_strlit(&a.pat)) {
                let n = m.arms.len();
                // the catch-all: `_` or a plain binding `k` (then bound to the scrutinee in the final else)
                let catch_ident: Option<Ident> = match &m.arms[n - 1].pat {
                    Pat::Ident(pi) if pi.subpat.is_none() && pi.by_ref.is_none() && pi.mutability.is_none() => Some(pi.ident.clone()),
                    _ => None,
                };
                let mut ok = n >= 2 && (matches!(m.arms[n - 1].pat, Pat::Wild(_)) || catch_ident.is_some()) && m.arms.iter().all(|a| a.guard.is_none());
                let mut conds: Vec<Expr> = vec![];
                if ok {
                    for a in &m.arms[..n - 1] {
                        let mut ls = vec![];
                        if !lits(&a.pat, &mut ls) || ls.is_empty() { ok = false; break; }
                        let mut c: Option<Expr> = None;
                        for l in ls {
                            let t: Expr = parse_quote!(vx_str_is(__vx_scrut, #l));
                            c = Some(match c { None => t, Some(p) => parse_quote!(#p || #t) });
                        }
                        conds.push(c.unwrap());
                    }
                }
                if ok {
                    let mut chain: Expr = {
                        let b = &m.arms[n - 1].body;
                        match &catch_ident { Some(id) => parse_quote!({ let #id = __vx_scrut; #b }), None => parse_quote!({ #b }) }
                    };
                    for (a, c) in m.arms[..n - 1].iter().zip(conds.iter()).rev() {
                        let b = &a.body;
                        chain = parse_quote!(if #c { #b } else #chain);
                    }
                    let scrut = &m.expr;
                    let ne: Expr = parse_quote!({ let __vx_scrut: &str = #scrut; #chain });
                    self.logit("R15", line, "match over string literals".to_string(), norm(&ne.to_token_stream()));
                    *e = ne;
                } else {
                    self.errors.push(format!("line {line}: match with string-literal patterns of a shape R15 does not cover (Verus gives such patterns no meaning): {}", norm(&m.to_token_stream()).chars().take(200).collect::<String>()));
                }
            }
        }

        // R5: formatting macros
        if let Expr::Macro(em) = e {
            if let Some(r) = self.macro_rewrite(&em.mac) {
                *e = r;
            }
        }

        // R7: unit-specific expression map (exact token match)
        if !self.maps.exprmap.is_empty() {
            let cur = norm(&e.to_token_stream());
            for (k, v) in &self.maps.exprmap {
                if *k == cur {
                    match parse_str::<Expr>(v) {
                        Ok(ne) => {
                            self.used_expr.insert(k.clone());
                            self.log.push(json!({"rule": "R7", "src_line": line, "before": cur, "after": v}));
                            *e = ne;
                        }
                        Err(er) => self.errors.push(format!("exprmap value `{v}` does not parse: {er}")),
                    }
                    break;
                }
            }
            // R7 with argument metavariables: a key `recv.m(__1, __2)` / `f(__1)` matches any call with the same callee (and
            // receiver) and arity; `__n` in the value is replaced by the n-th actual argument. Lets a contract see the arguments
            // of a call whatever they are (a protocol precondition then decides whether they are the right ones).
            if matches!(e, Expr::MethodCall(_) | Expr::Call(_)) {
                for (k, v) in &self.maps.exprmap {
                    if !k.contains("__1") {
                        continue;
                    }
                    let Ok(kexpr) = parse_str::<Expr>(k) else { continue };
                    let actuals: Option<Vec<String>> = match (&kexpr, &*e) {
                        (Expr::MethodCall(km), Expr::MethodCall(em))
                            if km.method == em.method && km.args.len() == em.args.len()
                                && norm(&km.receiver.to_token_stream()) == norm(&em.receiver.to_token_stream()) =>
                            Some(em.args.iter().map(|a| a.to_token_stream().to_string()).collect()),
                        (Expr::Call(kc), Expr::Call(ec))
                            if kc.args.len() == ec.args.len() && norm(&kc.func.to_token_stream()) == norm(&ec.func.to_token_stream()) =>
                            Some(ec.args.iter().map(|a| a.to_token_stream().to_string()).collect()),
                        _ => None,
                    };
                    if let Some(actuals) = actuals {
                        let mut val = v.clone();
                        for (i, a) in actuals.iter().enumerate().rev() {
                            val = val.replace(&format!("__{}", i + 1), &format!("({a})"));
                        }
                        match parse_str::<Expr>(&val) {
                            Ok(ne) => {
                                self.used_expr.insert(k.clone());
                                self.log.push(json!({"rule": "R7", "src_line": line, "before": norm(&e.to_token_stream()), "after": val}));
                                *e = ne;
                            }
                            Err(er) => self.errors.push(format!("exprmap value `{val}` does not parse: {er}")),
                        }
                        break;
                    }
                }
            }
        }
    }
}

/// Pass 1: number loops (pre-order), insert `__VX_LOOP_n;` markers, wrap `for` iterables
/// that need a named iterator, and insert `__VX_AT_k;` markers at the requested anchors.
pub struct Marker {
    /// loop ordinal -> function applied to the iterable of that `for` loop (R6: `for x in E` -> `for x in f(E)`)
    pub wrap_iter: HashMap<usize, String>,
    pub next_loop: usize,
    pub named_iter: HashSet<usize>,
    pub ats: Vec<(AtAnchor, usize)>, // anchor, marker id
    pub placed: HashSet<usize>,
    pub seen: HashMap<usize, usize>, // marker id -> number of statements matched so far (`#N` anchors)
    pub loops: Vec<(usize, usize, String)>, // ordinal, src line, kind
}

fn marker_stmt(prefix: &str, n: usize) -> Stmt {
    let id = Ident::new(&format!("{prefix}{n}"), Span::call_site());
    parse_quote!(#id;)
}

fn loop_ordinal_of_block(b: &Block) -> Option<usize> {
    if let Some(Stmt::Expr(Expr::Path(p), Some(_))) = b.stmts.first() {
        let s = p.path.segments.last()?.ident.to_string();
        return s.strip_prefix("__VX_LOOP_")?.parse().ok();
    }
    None
}

fn loop_ordinal_of_expr(e: &Expr) -> Option<usize> {
    match e {
        Expr::ForLoop(f) => loop_ordinal_of_block(&f.body),
        Expr::While(w) => loop_ordinal_of_block(&w.body),
        Expr::Loop(l) => loop_ordinal_of_block(&l.body),
        _ => None,
    }
}

impl Marker {
    fn body_marks(&mut self, n: usize, body: &mut Block) {
        let mut start = vec![marker_stmt("__VX_LOOP_", n)];
        for (a, k) in self.ats.clone() {
            match a {
                AtAnchor::LoopBodyStart(m) if m == n => {
                    start.push(marker_stmt("__VX_AT_", k));
                    self.placed.insert(k);
                }
                AtAnchor::LoopBodyEnd(m) if m == n => {
                    body.stmts.push(marker_stmt("__VX_AT_", k));
                    self.placed.insert(k);
                }
                _ => {}
            }
        }
        let mut rest = std::mem::take(&mut body.stmts);
        start.append(&mut rest);
        body.stmts = start;
    }
}

impl VisitMut for Marker {
    fn visit_expr_mut(&mut self, e: &mut Expr) {
        // pre-order numbering
        let line = line_of(e.span());
        match e {
            Expr::ForLoop(f) => {
                let n = self.next_loop;
                self.next_loop += 1;
                self.loops.push((n, line, "for".into()));
                if let Some(fname) = self.wrap_iter.get(&n) {
                    if let Some(meth) = fname.strip_prefix('.') {
                        // `.iter` : `for x in &M` / `for x in M` -> `for x in M.iter()`
                        let m = Ident::new(meth.trim_end_matches("()"), Span::call_site());
                        // an iterable already spelled `M.iter()` is left as it is: either spelling of the loop is read alike
                        let already = matches!(&*f.expr, Expr::MethodCall(mc) if mc.method == m && mc.args.is_empty());
                        if !already {
                            let it: Expr = match &*f.expr {
                                Expr::Reference(r) => (*r.expr).clone(),
                                other => other.clone(),
                            };
                            let ne: Expr = parse_quote!(#it.#m());
                            f.expr = Box::new(ne);
                        }
                    } else if let Ok(fp) = parse_str::<syn::Path>(fname) {
                        // `for x in M.iter()` and `for x in M` (M a reference) are the same iteration: the wrapper gets M in both
                        // forms (a field place gets a `&`), so that either spelling of the loop is read alike
                        let it: Expr = match &*f.expr {
                            Expr::MethodCall(mc) if mc.method == "iter" && mc.args.is_empty() => match &*mc.receiver {
                                Expr::Field(fe) => { let fe = fe.clone(); parse_quote!(&#fe) }
                                other => other.clone(),
                            },
                            other => other.clone(),
                        };
                        let ne: Expr = parse_quote!(#fp(#it));
                        f.expr = Box::new(ne);
                    }
                }
                if self.named_iter.contains(&n) {
                    let id = Ident::new(&format!("__VX_IT_{n}"), Span::call_site());
                    let it = &f.expr;
                    let ne: Expr = parse_quote!(#id(#it));
                    f.expr = Box::new(ne);
                }
                visit_mut::visit_expr_for_loop_mut(self, f);
                self.body_marks(n, &mut f.body);
            }
            Expr::While(w) => {
                let n = self.next_loop;
                self.next_loop += 1;
                self.loops.push((n, line, "while".into()));
                visit_mut::visit_expr_while_mut(self, w);
                self.body_marks(n, &mut w.body);
            }
            Expr::Loop(l) => {
                let n = self.next_loop;
                self.next_loop += 1;
                self.loops.push((n, line, "loop".into()));
                visit_mut::visit_expr_loop_mut(self, l);
                self.body_marks(n, &mut l.body);
            }
            _ => visit_mut::visit_expr_mut(self, e),
        }
    }

    fn visit_block_mut(&mut self, b: &mut Block) {
        visit_mut::visit_block_mut(self, b);
        let old = std::mem::take(&mut b.stmts);
        let mut out = Vec::with_capacity(old.len());
        for s in old {
            let mut before = vec![];
            let mut after = vec![];
            let lo = match &s {
                Stmt::Expr(e, _) => loop_ordinal_of_expr(e),
                _ => None,
            };
            let mut text: Option<String> = None;
            for (a, k) in self.ats.clone() {
                if self.placed.contains(&k) {
                    continue;
                }
                match a {
                    AtAnchor::LoopAfter(m) if Some(m) == lo => {
                        after.push(marker_stmt("__VX_AT_", k));
                        self.placed.insert(k);
                    }
                    AtAnchor::LoopBefore(m) if Some(m) == lo => {
                        before.push(marker_stmt("__VX_AT_", k));
                        self.placed.insert(k);
                    }
                    AtAnchor::StmtBefore(ref key) | AtAnchor::StmtAfter(ref key) => {
                        // do not match the markers themselves
                        // `<text>#N` selects the N-th statement (in traversal order) whose text starts with <text>; default: the first
                        let (key, nth) = match key.rsplit_once('#') {
                            Some((k0, n0)) if n0.chars().all(|c| c.is_ascii_digit()) && !n0.is_empty() => (k0.to_string(), n0.parse::<usize>().unwrap_or(1)),
                            _ => (key.clone(), 1usize),
                        };
                        let t = text.get_or_insert_with(|| norm(&s.to_token_stream()));
                        if t.starts_with(key.as_str()) {
                            let seen = self.seen.entry(k).or_insert(0);
                            *seen += 1;
                            if *seen != nth {
                                continue;
                            }
                            if matches!(a, AtAnchor::StmtBefore(_)) {
                                before.push(marker_stmt("__VX_AT_", k));
                            } else {
                                after.push(marker_stmt("__VX_AT_", k));
                            }
                            self.placed.insert(k);
                        }
                    }
                    _ => {}
                }
            }
            out.append(&mut before);
            out.push(s);
            out.append(&mut after);
        }
        b.stmts = out;
    }
}

/// R6b: `E.for_each(|P| BODY)` -> `for P in E BODY` (same iteration, same body; done before loops are numbered so that
/// the new loop can carry an invariant). Only closures whose body has no `return` are converted.
pub struct ForEach {
    pub log: Vec<serde_json::Value>,
}
struct HasReturn(bool);
impl<'ast> syn::visit::Visit<'ast> for HasReturn {
    fn visit_expr_return(&mut self, _: &'ast ExprReturn) { self.0 = true; }
}
impl VisitMut for ForEach {
    fn visit_expr_mut(&mut self, e: &mut Expr) {
        visit_mut::visit_expr_mut(self, e);
        if let Expr::MethodCall(m) = e {
            if m.method == "for_each" && m.args.len() == 1 {
                if let Expr::Closure(c) = &m.args[0] {
                    if c.inputs.len() == 1 {
                        let mut hr = HasReturn(false);
                        syn::visit::Visit::visit_expr(&mut hr, &c.body);
                        if !hr.0 {
                            let pat = &c.inputs[0];
                            let recv = &m.receiver;
                            let body = &c.body;
                            let blk: Block = match &**body {
                                Expr::Block(b) => b.block.clone(),
                                other => parse_quote!({ #other; }),
                            };
                            let ne: Expr = parse_quote!(for #pat in #recv #blk);
                            self.log.push(json!({"rule": "R6", "src_line": line_of(m.method.span()), "before": norm(&e.to_token_stream()), "after": "for <pat> in <receiver> { <closure body> }"}));
                            *e = ne;
                        }
                    }
                }
            }
        }
    }
}

/// R13: `continue` in a `for` body (Verus: "for-loops do not yet support continue"). A body of the shape
///   S1; if C { T; continue; } S2          becomes          S1; if C { T } else { S2 }
/// (same statements executed on both paths, nothing dropped). Applied repeatedly for several guards in one body; any other
/// placement of `continue` (inside a match arm, a nested block, with an `else`) is left alone and stays unsupported.
pub struct ContinueElim {
    pub log: Vec<serde_json::Value>,
}
struct HasContinue(bool);
impl<'ast> syn::visit::Visit<'ast> for HasContinue {
    fn visit_expr_continue(&mut self, _: &'ast ExprContinue) { self.0 = true; }
    fn visit_expr_for_loop(&mut self, _: &'ast ExprForLoop) {}
    fn visit_expr_while(&mut self, _: &'ast ExprWhile) {}
    fn visit_expr_loop(&mut self, _: &'ast ExprLoop) {}
    fn visit_expr_closure(&mut self, _: &'ast ExprClosure) {}
}
fn stmts_have_continue(ss: &[Stmt]) -> bool {
    let mut h = HasContinue(false);
    for s in ss { syn::visit::Visit::visit_stmt(&mut h, s); }
    h.0
}
fn eliminate_continue(stmts: &[Stmt]) -> Option<Vec<Stmt>> {
    for i in 0..stmts.len() {
        if let Stmt::Expr(Expr::If(ei), _) = &stmts[i] {
            if ei.else_branch.is_none() {
                if let Some(Stmt::Expr(Expr::Continue(c), _)) = ei.then_branch.stmts.last() {
                    if c.label.is_none() {
                        let then_rest = &ei.then_branch.stmts[..ei.then_branch.stmts.len() - 1];
                        if stmts_have_continue(then_rest) || stmts_have_continue(&stmts[..i]) { return None; }
                        let rest = &stmts[i + 1..];
                        let rest2: Vec<Stmt> = if stmts_have_continue(rest) { eliminate_continue(rest)? } else { rest.to_vec() };
                        let cond = &ei.cond;
                        let new_if: Expr = parse_quote!(if #cond { #(#then_rest)* } else { #(#rest2)* });
                        let mut out = stmts[..i].to_vec();
                        out.push(Stmt::Expr(new_if, None));
                        return Some(out);
                    }
                }
            }
        }
        // `if A { INNER }` (no else) with a `continue` somewhere inside INNER: falling off the end of INNER goes on with REST, so
        //   S1; if A { INNER } REST      becomes      S1; if A { elim(INNER ++ REST) } else { elim(REST) }
        if let Stmt::Expr(Expr::If(ei), _) = &stmts[i] {
            if ei.else_branch.is_none() && stmts_have_continue(&ei.then_branch.stmts) {
                if stmts_have_continue(&stmts[..i]) { return None; }
                let rest = &stmts[i + 1..];
                let mut inner: Vec<Stmt> = ei.then_branch.stmts.clone();
                // a trailing expression of INNER becomes a statement before REST is appended
                if let Some(Stmt::Expr(e, None)) = inner.last().cloned() {
                    let l = inner.len();
                    inner[l - 1] = Stmt::Expr(e, Some(Default::default()));
                }
                inner.extend(rest.iter().cloned());
                let then2 = eliminate_continue(&inner)?;
                let rest2: Vec<Stmt> = if stmts_have_continue(rest) { eliminate_continue(rest)? } else { rest.to_vec() };
                let cond = &ei.cond;
                let new_if: Expr = parse_quote!(if #cond { #(#then2)* } else { #(#rest2)* });
                let mut out = stmts[..i].to_vec();
                out.push(Stmt::Expr(new_if, None));
                return Some(out);
            }
        }
        // `let PAT = match E { Pi => Vi, Pj => { Tj; continue; } }; REST`  becomes  `match E { Pi => { let PAT = Vi; REST }, Pj => { Tj } }`
        // and `let PAT = E else { T; continue; }; REST`  becomes  `if let PAT = E { REST } else { T }`  (REST once per value arm)
        if let Stmt::Local(loc) = &stmts[i] {
            if stmts_have_continue(&stmts[i..=i]) {
                if stmts_have_continue(&stmts[..i]) { return None; }
                let rest = &stmts[i + 1..];
                let rest2: Vec<Stmt> = if stmts_have_continue(rest) { eliminate_continue(rest)? } else { rest.to_vec() };
                // what an arm / else block does before its closing `continue;` (None: not of that shape)
                fn before_continue(e: &Expr) -> Option<Vec<Stmt>> {
                    match e {
                        Expr::Continue(c) if c.label.is_none() => Some(vec![]),
                        Expr::Block(b) => {
                            if let Some(Stmt::Expr(Expr::Continue(c), _)) = b.block.stmts.last() {
                                let head = &b.block.stmts[..b.block.stmts.len() - 1];
                                if c.label.is_none() && !stmts_have_continue(head) { return Some(head.to_vec()); }
                            }
                            None
                        }
                        _ => None,
                    }
                }
                let init = loc.init.as_ref()?;
                if let Some((_, div)) = &init.diverge {
                    let t = before_continue(div)?;
                    let mut hc = HasContinue(false);
                    syn::visit::Visit::visit_expr(&mut hc, &init.expr);
                    if hc.0 { return None; }
                    let pat = match &loc.pat { Pat::Type(pt) => (*pt.pat).clone(), p => p.clone() };
                    let ex = &init.expr;
                    let new_if: Expr = parse_quote!(if let #pat = #ex { #(#rest2)* } else { #(#t)* });
                    let mut out = stmts[..i].to_vec();
                    out.push(Stmt::Expr(new_if, None));
                    return Some(out);
                }
                if let Expr::Match(m) = &*init.expr {
                    let mut hc = HasContinue(false);
                    syn::visit::Visit::visit_expr(&mut hc, &m.expr);
                    if hc.0 { return None; }
                    let mut arms: Vec<Arm> = vec![];
                    for a in &m.arms {
                        let mut ha = HasContinue(false);
                        syn::visit::Visit::visit_expr(&mut ha, &a.body);
                        if let Some((_, g)) = &a.guard { syn::visit::Visit::visit_expr(&mut ha, g); }
                        let mut na = a.clone();
                        if ha.0 {
                            let t = before_continue(&a.body)?;
                            na.body = Box::new(parse_quote!({ #(#t)* }));
                        } else {
                            let mut l2 = loc.clone();
                            let v = &a.body;
                            l2.init = Some(LocalInit { eq_token: init.eq_token, expr: Box::new(parse_quote!(#v)), diverge: None });
                            let ls = Stmt::Local(l2);
                            na.body = Box::new(parse_quote!({ #ls #(#rest2)* }));
                        }
                        na.comma = Some(Default::default());
                        arms.push(na);
                    }
                    let scrut = &m.expr;
                    let new_match: Expr = parse_quote!(match #scrut { #(#arms)* });
                    let mut out = stmts[..i].to_vec();
                    out.push(Stmt::Expr(new_match, None));
                    return Some(out);
                }
                return None;
            }
        }
        if stmts_have_continue(&stmts[i..=i]) { return None; }
    }
    None
}
impl VisitMut for ContinueElim {
    fn visit_expr_mut(&mut self, e: &mut Expr) {
        visit_mut::visit_expr_mut(self, e);
        if let Expr::ForLoop(f) = e {
            if stmts_have_continue(&f.body.stmts) {
                if let Some(ns) = eliminate_continue(&f.body.stmts) {
                    self.log.push(json!({"rule": "R13", "src_line": line_of(f.for_token.span), "before": "`if C { ..; continue; } REST` / `let P = match E { .., Q => { ..; continue; } }; REST` / `let P = E else { ..; continue; }; REST` in a for body", "after": "`if C { .. } else { REST }` / `match E { .. => { let P = ..; REST }, Q => { .. } }` / `if let P = E { REST } else { .. }`"}));
                    f.body.stmts = ns;
                }
            }
        }
    }
}

/// R16: `let P = loop { .. break V; .. };` (Verus: "complex break expressions") becomes
///   `let __vx_brk_N; loop { .. { __vx_brk_N = V; break; } .. } let P = __vx_brk_N;`
/// (deferred initialisation: every exit of the loop assigns first). Only unlabelled `break V` of that very loop are rewritten; a
/// loop with a label, or a `break V` inside a nested closure, is left alone (and stays unsupported).
pub struct BreakValue {
    pub log: Vec<serde_json::Value>,
    pub n: usize,
}
struct BreakRw { id: Ident, count: usize }
impl VisitMut for BreakRw {
    fn visit_expr_mut(&mut self, e: &mut Expr) {
        match e {
            Expr::ForLoop(_) | Expr::While(_) | Expr::Loop(_) | Expr::Closure(_) => return,
            _ => {}
        }
        visit_mut::visit_expr_mut(self, e);
        if let Expr::Break(b) = e {
            if b.label.is_none() {
                if let Some(v) = b.expr.take() {
                    let id = &self.id;
                    self.count += 1;
                    *e = parse_quote!({ #id = #v; break; });
                }
            }
        }
    }
}
impl VisitMut for BreakValue {
    fn visit_block_mut(&mut self, b: &mut Block) {
        visit_mut::visit_block_mut(self, b);
        let old = std::mem::take(&mut b.stmts);
        for st in old {
            if let Stmt::Local(loc) = &st {
                if let Some(init) = &loc.init {
                    if init.diverge.is_none() {
                        if let Expr::Loop(lp) = &*init.expr {
                            if lp.label.is_none() {
                                let id = Ident::new(&format!("__vx_brk_{}", self.n), Span::call_site());
                                let mut body = lp.body.clone();
                                let mut rw = BreakRw { id: id.clone(), count: 0 };
                                for s2 in body.stmts.iter_mut() { rw.visit_stmt_mut(s2); }
                                if rw.count > 0 {
                                    self.n += 1;
                                    self.log.push(json!({"rule": "R16", "src_line": line_of(lp.loop_token.span), "before": "`let P = loop { .. break V; .. };`", "after": format!("`let {id}; loop {{ .. {{ {id} = V; break; }} .. }} let P = {id};`")}));
                                    let mut lp2 = lp.clone();
                                    lp2.body = body;
                                    let decl: Stmt = parse_quote!(let #id;);
                                    let lstmt = Stmt::Expr(Expr::Loop(lp2), None);
                                    let mut l2 = loc.clone();
                                    l2.init = Some(LocalInit { eq_token: init.eq_token, expr: Box::new(parse_quote!(#id)), diverge: None });
                                    b.stmts.push(decl);
                                    b.stmts.push(lstmt);
                                    b.stmts.push(Stmt::Local(l2));
                                    continue;
                                }
                            }
                        }
                    }
                }
            }
            b.stmts.push(st);
        }
    }
}

/// R11c: Option-combinator desugaring (opt-in per function, because the receiver type is not known syntactically):
///   R.and_then(|p| B) -> match R { Some(p) => B, None => None }      R.map(|p| B) -> match R { Some(p) => Some(B), None => None }
///   R.map_err(|p| B) -> match R { Ok(v) => Ok(v), Err(p) => Err(B) }
///   R.filter(|p| B) -> match R { Some(v) => { let p = &v; if B { Some(v) } else { None } } None => None }
///   R.ok_or_else(|| B) -> R.ok_or(B)    R.unwrap_or_else(|| B) -> R.unwrap_or(B)    R.or_else(|| B) -> match R { Some(v) => Some(v), None => B }
/// Closures containing `return` or `?` are left alone.
pub struct OptDesugar {
    pub methods: HashSet<String>,
    pub log: Vec<serde_json::Value>,
}
struct HasReturnOrTry(bool);
impl<'ast> syn::visit::Visit<'ast> for HasReturnOrTry {
    fn visit_expr_return(&mut self, _: &'ast ExprReturn) { self.0 = true; }
    fn visit_expr_try(&mut self, _: &'ast ExprTry) { self.0 = true; }
}
impl VisitMut for OptDesugar {
    /// statement form only (result unused): `R.get_or_insert_with(F);` -> `if R.is_none() { R = Some(F()); }`
    fn visit_block_mut(&mut self, b: &mut Block) {
        visit_mut::visit_block_mut(self, b);
        // `for p in R.m()` where R is itself a call: `let __vx_for_recv = R; for p in __vx_for_recv.m()` (opt-in `for_receiver`):
        // Verus' for-loop encoding cannot borrow from a temporary; the binding lives to the end of the enclosing block instead
        if self.methods.contains("for_receiver") {
            let old = std::mem::take(&mut b.stmts);
            for mut st in old {
                let mut pre: Option<Stmt> = None;
                if let Stmt::Expr(Expr::ForLoop(f), _) = &mut st {
                    if let Expr::MethodCall(m) = &mut *f.expr {
                        if matches!(&*m.receiver, Expr::MethodCall(_) | Expr::Call(_)) {
                            let id = Ident::new(&format!("__vx_for_recv_{}", line_of(m.method.span())), Span::call_site());
                            let recv = m.receiver.clone();
                            self.log.push(json!({"rule": "R6", "src_line": line_of(m.method.span()), "before": norm(&recv.to_token_stream()), "after": format!("receiver of the loop's iterator bound to `{id}` before the loop")}));
                            pre = Some(parse_quote!(let #id = #recv;));
                            m.receiver = Box::new(parse_quote!(#id));
                        }
                    }
                }
                if let Some(p) = pre {
                    b.stmts.push(p);
                }
                b.stmts.push(st);
            }
        }
        if !self.methods.contains("get_or_insert_with") {
            return;
        }
        for st in b.stmts.iter_mut() {
            let ne: Option<Stmt> = if let Stmt::Expr(Expr::MethodCall(m), Some(_)) = st {
                if m.method == "get_or_insert_with" && m.args.len() == 1 {
                    let recv = &m.receiver;
                    let init: Option<Expr> = match &m.args[0] {
                        Expr::Closure(c) if c.inputs.is_empty() => { let body = &c.body; Some(parse_quote!(#body)) }
                        Expr::Path(pth) => Some(parse_quote!(#pth())),
                        _ => None,
                    };
                    init.map(|init| {
                        self.log.push(json!({"rule": "R11", "src_line": line_of(m.method.span()), "before": norm(&m.to_token_stream()), "after": "Option::get_or_insert_with (result unused) desugared into `if is_none { = Some(..) }`"}));
                        let s: Stmt = parse_quote!(if #recv.is_none() { #recv = Some(#init); });
                        s
                    })
                } else { None }
            } else { None };
            if let Some(ne) = ne {
                *st = ne;
            }
        }
    }
    fn visit_expr_mut(&mut self, e: &mut Expr) {
        visit_mut::visit_expr_mut(self, e);
        if let Expr::MethodCall(m) = e {
            let name = m.method.to_string();
            if !self.methods.contains(&name) || m.args.len() != 1 {
                return;
            }
            if let Expr::Closure(c) = &m.args[0] {
                let mut hr = HasReturnOrTry(false);
                syn::visit::Visit::visit_expr(&mut hr, &c.body);
                if hr.0 {
                    return;
                }
                let recv = &m.receiver;
                let body = &c.body;
                let ne: Option<Expr> = match (name.as_str(), c.inputs.len()) {
                    ("and_then", 1) => { let p = &c.inputs[0]; Some(parse_quote!(match #recv { Some(#p) => #body, None => None })) }
                    ("map", 1) => { let p = &c.inputs[0]; Some(parse_quote!(match #recv { Some(#p) => Some(#body), None => None })) }
                    ("ok_or_else", 0) => Some(parse_quote!(#recv.ok_or(#body))),
                    ("unwrap_or_else", 0) => Some(parse_quote!(#recv.unwrap_or(#body))),
                    ("or_else", 0) => Some(parse_quote!(match #recv { Some(__vx_v) => Some(__vx_v), None => #body })),
                    // Ordering::then_with(|| B): B decides only when the receiver says Equal
                    ("then_with", 0) => Some(parse_quote!(match #recv { Ordering::Equal => #body, __vx_o => __vx_o })),
                    ("map_err", 1) => { let p = &c.inputs[0]; Some(parse_quote!(match #recv { Ok(__vx_v) => Ok(__vx_v), Err(#p) => Err(#body) })) }
                    ("filter", 1) => { let p = &c.inputs[0]; Some(parse_quote!(match #recv { Some(__vx_v) => { let #p = &__vx_v; if #body { Some(__vx_v) } else { None } } None => None })) }
                    _ => None,
                };
                if let Some(ne) = ne {
                    self.log.push(json!({"rule": "R11", "src_line": line_of(m.method.span()), "before": norm(&e.to_token_stream()), "after": format!("Option::{name} desugared into match / eager argument")}));
                    *e = ne;
                }
            }
        }
    }
}

/// R11: closures. Pass 0 (before markers): collects closure expressions in pre-order; optionally replaces the n-th one.
pub struct Closures {
    pub found: Vec<ExprClosure>,
    pub replace: HashMap<usize, Expr>,
    pub log: Vec<serde_json::Value>,
}
impl VisitMut for Closures {
    fn visit_expr_mut(&mut self, e: &mut Expr) {
        if let Expr::Closure(c) = e {
            let n = self.found.len();
            self.found.push(c.clone());
            if let Some(r) = self.replace.get(&n) {
                self.log.push(json!({"rule": "R11", "src_line": line_of(c.span()), "before": format!("closure #{n}: {}", norm(&c.to_token_stream())), "after": norm(&r.to_token_stream())}));
                *e = r.clone();
                return;
            }
        }
        visit_mut::visit_expr_mut(self, e);
    }
}

pub fn mark_fn_body(m: &mut Marker, body: &mut Block) {
    m.visit_block_mut(body);
    for (a, k) in m.ats.clone() {
        match a {
            AtAnchor::FnStart => {
                body.stmts.insert(0, marker_stmt("__VX_AT_", k));
                m.placed.insert(k);
            }
            AtAnchor::FnEnd => {
                // before the trailing expression, if any
                // ... and before a closing `return ..;` statement (code after it would be unreachable, an assertion there vacuous)
                let pos = match body.stmts.last() {
                    Some(Stmt::Expr(_, None)) => body.stmts.len() - 1,
                    Some(Stmt::Expr(Expr::Return(_), Some(_))) => body.stmts.len() - 1,
                    _ => body.stmts.len(),
                };
                body.stmts.insert(pos, marker_stmt("__VX_AT_", k));
                m.placed.insert(k);
            }
            _ => {}
        }
    }
}

#[allow(dead_code)]
pub fn quote_unused() -> TokenStream {
    quote!()
}
