//! Unit templates (`*.vrs`): Verus text with `//@` directives naming the real items to splice.
//!
//! Directives (one per line unless noted):
//!   //@typemap <Type> => <Type>          unit-wide type substitution (exact token match)
//!   //@exprmap <expr> => <expr>          expression substitution R7 (unit-wide, or fn-local inside a //@fn block)
//!   //@methodmap <method> => <function>  R10: `x.method(a)` -> `function(x, a)` (unit-wide or fn-local)
//!   //@turbofish <Type> ...              R2: `Type::f::<T>(..)` -> `Type::f_T(..)`
//!   //@struct <file> <Name> [derive=A,B] [opaque=f1,f2]   copy the real struct definition (fields forced pub)
//!   //@enum <file> <Name> [derive=A,B]   copy the real enum definition
//!   //@const <file> <NAME>               copy a const item
//!   //@fn <file> <Type>::<name> | ::<name> [ret=<var>] [trait=<Trait>] [nopub] [rename=<n>] [sigonly]
//!       <contract lines: requires/ensures/decreases ...>
//!     //@loop <n> [iter=<name>]
//!       <invariant / decreases lines for loop n (pre-order ordinal in the real body)>
//!     //@at fn.start | fn.end | loop<n>.after | loop<n>.body_start | loop<n>.body_end | before "<stmt prefix>" | after "<stmt prefix>"
//!       <proof text spliced at that point (ghost code only; checked by the assumption scan)>
//!   //@end
//! Everything else is copied verbatim.

use crate::printer::{norm, norm_str, OutLine, Printer, Splices};
use crate::rewrite::{mark_fn_body, AtAnchor, BreakValue, Closures, ContinueElim, ForEach, Maps, Marker, OptDesugar, Rw};
use quote::ToTokens;
use serde_json::{json, Value as J};
use std::collections::{HashMap, HashSet};
use syn::visit_mut::VisitMut;
use syn::*;

pub struct RunResult {
    pub text: String,
    pub log: J,
}

struct Files {
    repo: String,
    cache: HashMap<String, (String, syn::File)>,
}

impl Files {
    fn get(&mut self, rel: &str) -> std::result::Result<&(String, syn::File), String> {
        if !self.cache.contains_key(rel) {
            let p = format!("{}/{}", self.repo, rel);
            let src = std::fs::read_to_string(&p).map_err(|e| format!("lost-anchor file {p}: {e}"))?;
            let f = syn::parse_file(&src).map_err(|e| format!("unparsable {p}: {e}"))?;
            self.cache.insert(rel.to_string(), (src, f));
        }
        Ok(self.cache.get(rel).unwrap())
    }
}

fn opts(words: &[&str]) -> HashMap<String, String> {
    let mut m = HashMap::new();
    for w in words {
        if let Some((k, v)) = w.split_once('=') {
            m.insert(k.to_string(), v.to_string());
        } else {
            m.insert(w.to_string(), String::new());
        }
    }
    m
}

fn self_ty_name(t: &Type) -> Option<String> {
    if let Type::Path(p) = t {
        return p.path.segments.last().map(|s| s.ident.to_string());
    }
    None
}

enum Found {
    Method(ImplItemFn),
    Free(ItemFn),
}

fn collect_fn_hits(items: &[Item], ty: &str, name: &str, tr: Option<&str>, hits: &mut Vec<Found>) {
    for it in items {
        match it {
            // inline modules (`mod misc { impl Story { .. } }`) are searched too
            Item::Mod(m) => {
                if let Some((_, inner)) = &m.content {
                    collect_fn_hits(inner, ty, name, tr, hits);
                }
            }
            Item::Impl(im) if !ty.is_empty() => {
                if self_ty_name(&im.self_ty).as_deref() != Some(ty) {
                    continue;
                }
                let tname = im.trait_.as_ref().map(|(_, p, _)| norm(&p.to_token_stream()));
                match (tr, &tname) {
                    (Some(want), Some(have)) => {
                        if have != want && !have.starts_with(&format!("{want}<")) {
                            continue;
                        }
                    }
                    (Some(_), None) => continue,
                    (None, _) => {}
                }
                for ii in &im.items {
                    if let ImplItem::Fn(m) = ii {
                        if m.sig.ident == name {
                            hits.push(Found::Method(m.clone()));
                        }
                    }
                }
            }
            Item::Fn(func) if ty.is_empty() => {
                if func.sig.ident == name {
                    hits.push(Found::Free(func.clone()));
                }
            }
            _ => {}
        }
    }
}

fn find_fn(f: &syn::File, ty: &str, name: &str, tr: Option<&str>, nth: usize) -> std::result::Result<Found, String> {
    let mut hits = vec![];
    collect_fn_hits(&f.items, ty, name, tr, &mut hits);
    if hits.is_empty() {
        return Err(format!("lost-anchor fn {ty}::{name}"));
    }
    if hits.len() > 1 && nth == usize::MAX {
        return Err(format!("ambiguous fn {ty}::{name} ({} candidates; use trait= or nth=)", hits.len()));
    }
    let idx = if nth == usize::MAX { 0 } else { nth };
    if idx >= hits.len() {
        return Err(format!("lost-anchor fn {ty}::{name} nth={idx}"));
    }
    Ok(hits.remove(idx))
}

fn lines_to_text(lines: &[OutLine]) -> Vec<String> {
    lines.iter().map(|l| l.text.clone()).collect()
}

struct Emit {
    out: Vec<String>,
    // (out line index (1-based), src file, src line, fuc name)
    map: Vec<J>,
}

impl Emit {
    // one entry of `out` per physical line of the output file (spliced template text may span several lines):
    // every line number recorded in the log is then the line Verus reports
    fn push_raw(&mut self, s: &str) {
        let t = s.strip_suffix('\n').unwrap_or(s);
        for part in t.split('\n') {
            self.out.push(part.to_string());
        }
    }
    fn push_lines(&mut self, lines: &[OutLine], file: &str, fuc: &str) {
        for l in lines {
            let t = l.text.strip_suffix('\n').unwrap_or(&l.text);
            for part in t.split('\n') {
                self.out.push(part.to_string());
                self.map.push(json!({"out": self.out.len(), "file": file, "src": l.src_line, "fn": fuc}));
            }
        }
    }
}

fn parse_anchor(s: &str) -> std::result::Result<AtAnchor, String> {
    let s = s.trim();
    if s == "fn.start" {
        return Ok(AtAnchor::FnStart);
    }
    if s == "fn.end" {
        return Ok(AtAnchor::FnEnd);
    }
    if let Some(rest) = s.strip_prefix("loop") {
        if let Some((n, what)) = rest.split_once('.') {
            let n: usize = n.parse().map_err(|_| format!("bad anchor {s}"))?;
            return match what {
                "after" => Ok(AtAnchor::LoopAfter(n)),
                "before" => Ok(AtAnchor::LoopBefore(n)),
                "body_start" => Ok(AtAnchor::LoopBodyStart(n)),
                "body_end" => Ok(AtAnchor::LoopBodyEnd(n)),
                _ => Err(format!("bad anchor {s}")),
            };
        }
    }
    for (kw, before) in [("before", true), ("after", false)] {
        if let Some(rest) = s.strip_prefix(kw) {
            let rest = rest.trim();
            // optional ` #N` after the quoted text: the N-th matching statement
            let (rest, nth) = match rest.rsplit_once('#') {
                Some((r0, n0)) if !n0.is_empty() && n0.trim().chars().all(|c| c.is_ascii_digit()) && (r0.trim_end().ends_with('"') || r0.trim_end().ends_with('`')) => (r0.trim_end(), Some(n0.trim().to_string())),
                _ => (rest, None),
            };
            if (rest.starts_with('"') && rest.ends_with('"') || rest.starts_with('`') && rest.ends_with('`')) && rest.len() >= 2 {
                let mut key = norm_str(&rest[1..rest.len() - 1]).ok_or(format!("bad anchor text {s}"))?;
                if let Some(n) = nth { key = format!("{key}#{n}"); }
                return Ok(if before { AtAnchor::StmtBefore(key) } else { AtAnchor::StmtAfter(key) });
            }
        }
    }
    Err(format!("bad anchor {s}"))
}

fn split_map(rest: &str) -> Option<(String, String)> {
    // `|=>` is the unambiguous separator (for keys/values that contain `=>` themselves, e.g. a `match`)
    let (a, b) = match rest.split_once("|=>") {
        Some(x) => x,
        None => rest.split_once("=>")?,
    };
    Some((a.trim().to_string(), b.trim().to_string()))
}

pub fn run(repo: &str, unit_path: &str, canary: bool) -> std::result::Result<RunResult, String> {
    let tpl = expand_includes(unit_path, 0)?;
    let mut files = Files { repo: repo.to_string(), cache: HashMap::new() };
    let mut maps = Maps::default();
    let mut em = Emit { out: vec![], map: vec![] };
    let mut fucs: Vec<J> = vec![];
    let mut types: Vec<J> = vec![];
    let mut rewrites: Vec<J> = vec![];
    let mut used_expr: HashSet<String> = HashSet::new();
    let mut used_type: HashSet<String> = HashSet::new();
    let mut unit_exprmap_keys: Vec<String> = vec![];
    let mut dropped_fns: Vec<String> = vec![];
    let mut unused_local: Vec<J> = vec![];

    let lines: Vec<&str> = tpl.lines().collect();
    let mut i = 0;
    while i < lines.len() {
        let line = lines[i];
        let t = line.trim_start();
        if !t.starts_with("//@") {
            em.push_raw(line);
            i += 1;
            continue;
        }
        let d = &t[3..];
        let words: Vec<&str> = d.split_whitespace().collect();
        if words.is_empty() {
            i += 1;
            continue;
        }
        match words[0] {
            "typemap" => {
                let (a, b) = split_map(d["typemap".len()..].trim()).ok_or(format!("bad typemap: {d}"))?;
                let a = norm_str(&a).ok_or("bad typemap key")?;
                maps.typemap.push((a, b));
                i += 1;
            }
            "exprmap" => {
                let (a, b) = split_map(d["exprmap".len()..].trim()).ok_or(format!("bad exprmap: {d}"))?;
                let a = norm_str(&a).ok_or("bad exprmap key")?;
                unit_exprmap_keys.push(a.clone());
                maps.exprmap.push((a, b));
                i += 1;
            }
            "methodmap" => {
                let (a, b) = split_map(d["methodmap".len()..].trim()).ok_or(format!("bad methodmap: {d}"))?;
                maps.methodmap.insert(a, b);
                i += 1;
            }
            "turbofish" => {
                for w in &words[1..] {
                    maps.turbofish.insert(w.to_string());
                }
                i += 1;
            }
            "litstrings" => {
                maps.litstrings = true;
                i += 1;
            }
            "struct" | "enum" => {
                let file = words.get(1).ok_or("struct: file?")?.to_string();
                let name = words.get(2).ok_or("struct: name?")?.to_string();
                let o = opts(&words[3..]);
                let (_, f) = files.get(&file)?;
                let mut item: Option<Item> = None;
                for it in &f.items {
                    match it {
                        Item::Struct(s) if words[0] == "struct" && s.ident == name => item = Some(it.clone()),
                        Item::Enum(e) if words[0] == "enum" && e.ident == name => item = Some(it.clone()),
                        _ => {}
                    }
                }
                let mut item = item.ok_or(format!("lost-anchor {} {file} {name}", words[0]))?;
                let opaque: HashSet<String> =
                    o.get("opaque").map(|s| s.split(',').map(|x| x.to_string()).collect()).unwrap_or_default();
                let mut rw = Rw::new(&maps);
                let derive = o.get("derive").cloned();
                let mut field_list = vec![];
                match &mut item {
                    Item::Struct(s) => {
                        s.attrs.clear();
                        s.vis = parse_quote!(pub);
                        for fld in s.fields.iter_mut() {
                            fld.attrs.clear();
                            fld.vis = parse_quote!(pub);
                            let fname = fld.ident.as_ref().map(|x| x.to_string()).unwrap_or_default();
                            let before = norm(&fld.ty.to_token_stream());
                            if opaque.contains(&fname) {
                                let id = Ident::new(&format!("Opaque_{}_{}", name, fname), proc_macro2::Span::call_site());
                                fld.ty = parse_quote!(#id);
                            } else {
                                rw.visit_type_mut(&mut fld.ty);
                            }
                            field_list.push(json!({"field": fname, "real_type": before, "unit_type": norm(&fld.ty.to_token_stream())}));
                        }
                    }
                    Item::Enum(e) => {
                        e.attrs.clear();
                        e.vis = parse_quote!(pub);
                        for v in e.variants.iter_mut() {
                            v.attrs.clear();
                            for fld in v.fields.iter_mut() {
                                fld.attrs.clear();
                                rw.visit_type_mut(&mut fld.ty);
                            }
                            field_list.push(json!({"variant": v.ident.to_string(), "fields": norm(&v.fields.to_token_stream())}));
                        }
                    }
                    _ => {}
                }
                if !rw.errors.is_empty() {
                    return Err(rw.errors.join("; "));
                }
                used_type.extend(rw.used_type.iter().cloned());
                rewrites.extend(rw.log.into_iter().map(|mut l| {
                    l["in"] = json!(format!("{} {}", words[0], name));
                    l["file"] = json!(file);
                    l
                }));
                if let Some(dv) = derive {
                    em.push_raw(&format!("#[derive({})]", dv));
                }
                let sp = Splices::default();
                let mut pr = Printer::new(&sp, 0);
                pr.stream(item.to_token_stream());
                let (ls, _) = pr.finish();
                em.push_raw(&format!("// vx: {} {} copied from {}", words[0], name, file));
                em.push_lines(&ls, &file, "");
                types.push(json!({"kind": words[0], "name": name, "file": file, "members": field_list}));
                i += 1;
            }
            "bodyis" => {
                // //@bodyis <file> <Type::fn> <expected body tokens>: the rewrite that inlines this accessor is only
                // sound while the real body is exactly this text; otherwise the unit is undecided.
                let file = words.get(1).ok_or("bodyis: file?")?.to_string();
                let target = words.get(2).ok_or("bodyis: target?")?.to_string();
                let (ty, name) = target.rsplit_once("::").ok_or("bodyis target")?;
                let expect_src = d.splitn(4, char::is_whitespace).nth(3).unwrap_or("").trim().to_string();
                let expect = norm_str(&expect_src).ok_or("bodyis: bad tokens")?;
                let (_, f) = files.get(&file)?;
                let found = find_fn(f, ty, name, None, usize::MAX)?;
                let body = match found { Found::Method(m) => m.block, Found::Free(func) => *func.block };
                let have = norm(&body.to_token_stream());
                if have != expect {
                    return Err(format!("lost-anchor bodyis {target}: body is `{have}`, expected `{expect}`"));
                }
                types.push(json!({"kind": "bodyis", "name": target, "file": file, "body": have}));
                em.push_raw(&format!("// vx: checked that {target} in {file} has body {expect_src}"));
                i += 1;
            }
            "const" => {
                let file = words.get(1).ok_or("const: file?")?.to_string();
                let name = words.get(2).ok_or("const: name?")?.to_string();
                let (_, f) = files.get(&file)?;
                let mut found = None;
                for it in &f.items {
                    if let Item::Const(c) = it {
                        if c.ident == name {
                            found = Some(c.clone());
                        }
                    }
                }
                if found.is_none() {
                    // an immutable `static` is copied as a `const` (R9: same value, no address identity)
                    for it in &f.items {
                        if let Item::Static(st) = it {
                            if st.ident == name && matches!(st.mutability, StaticMutability::None) {
                                let (ty, ex) = (&st.ty, &st.expr);
                                let id = &st.ident;
                                let c: ItemConst = parse_quote!(pub const #id: #ty = #ex;);
                                found = Some(c);
                            }
                        }
                    }
                }
                let mut c = found.ok_or(format!("lost-anchor const {file} {name}"))?;
                c.attrs.clear();
                c.vis = parse_quote!(pub);
                if let Type::Reference(r) = &mut *c.ty {
                    if r.lifetime.is_none() {
                        r.lifetime = Some(parse_quote!('static));
                    }
                }
                let sp = Splices::default();
                let mut pr = Printer::new(&sp, 0);
                pr.stream(c.to_token_stream());
                let (ls, _) = pr.finish();
                em.push_lines(&ls, &file, "");
                types.push(json!({"kind": "const", "name": name, "file": file}));
                i += 1;
            }
            "fn" => {
                let file = words.get(1).ok_or("fn: file?")?.to_string();
                let target = words.get(2).ok_or("fn: target?")?.to_string();
                let o = opts(&words[3..]);
                let (ty, name) = target.rsplit_once("::").ok_or(format!("fn target must be Type::name or ::name: {target}"))?;
                let indent = line.len() - t.len();
                // collect the block
                let mut contract: Vec<String> = vec![];
                let mut loops: HashMap<usize, (String, Option<String>)> = HashMap::new();
                let mut ats: Vec<(AtAnchor, String)> = vec![];
                let mut local = maps.clone();
                let mut closure_repl: HashMap<usize, Expr> = HashMap::new();
                let mut optdesugar: HashSet<String> = HashSet::new();
                let mut loop_wrap: HashMap<usize, String> = HashMap::new();
                enum Sec { Contract, Loop(usize), At(usize) }
                let mut sec = Sec::Contract;
                i += 1;
                let mut closed = false;
                while i < lines.len() {
                    let l = lines[i];
                    let lt = l.trim_start();
                    if let Some(dd) = lt.strip_prefix("//@") {
                        let w: Vec<&str> = dd.split_whitespace().collect();
                        match w.first().copied() {
                            Some("end") => { closed = true; i += 1; break; }
                            Some("loop") => {
                                let n: usize = w.get(1).and_then(|x| x.parse().ok()).ok_or(format!("bad //@loop: {dd}"))?;
                                let oo = opts(&w[2..]);
                                loops.insert(n, (String::new(), oo.get("iter").cloned()));
                                if let Some(wf) = oo.get("wrap") {
                                    loop_wrap.insert(n, wf.clone());
                                }
                                sec = Sec::Loop(n);
                            }
                            Some("at") => {
                                let a = parse_anchor(dd.trim_start()["at".len()..].trim())?;
                                ats.push((a, String::new()));
                                sec = Sec::At(ats.len() - 1);
                            }
                            Some("exprmap") => {
                                let (a, b) = split_map(dd.trim_start()["exprmap".len()..].trim()).ok_or(format!("bad exprmap: {dd}"))?;
                                let a = norm_str(&a).ok_or("bad exprmap key")?;
                                local.exprmap.insert(0, (a, b));
                            }
                            Some("methodmap") => {
                                let (a, b) = split_map(dd.trim_start()["methodmap".len()..].trim()).ok_or(format!("bad methodmap: {dd}"))?;
                                local.methodmap.insert(a, b);
                            }
                            Some("typemap") => {
                                let (a, b) = split_map(dd.trim_start()["typemap".len()..].trim()).ok_or(format!("bad typemap: {dd}"))?;
                                let a = norm_str(&a).ok_or("bad typemap key")?;
                                local.typemap.insert(0, (a, b));
                            }
                            Some("optdesugar") => {
                                for x in &w[1..] {
                                    optdesugar.insert(x.to_string());
                                }
                            }
                            Some("closuremap") => {
                                let (a, b) = split_map(dd.trim_start()["closuremap".len()..].trim()).ok_or(format!("bad closuremap: {dd}"))?;
                                let n: usize = a.trim().parse().map_err(|_| format!("bad closuremap ordinal: {a}"))?;
                                let ex: Expr = parse_str(&b).map_err(|e| format!("closuremap value does not parse: {e}"))?;
                                closure_repl.insert(n, ex);
                            }
                            _ => return Err(format!("unknown directive inside //@fn: {dd}")),
                        }
                    } else {
                        match sec {
                            Sec::Contract => contract.push(l.to_string()),
                            Sec::Loop(n) => { let e = loops.get_mut(&n).unwrap(); e.0.push_str(l); e.0.push('\n'); }
                            Sec::At(k) => { ats[k].1.push_str(l); ats[k].1.push('\n'); }
                        }
                    }
                    i += 1;
                }
                if !closed {
                    return Err(format!("//@fn {target}: missing //@end"));
                }
                // VX_DROP_FNS=<target>,<target>: the named //@fn blocks are skipped (check.py sets it after a `lost-anchor fn` for a
                // function that no longer exists, to verify the rest of the unit; the run stays undecided unless that finds a failure)
                if std::env::var("VX_DROP_FNS").map(|v| v.split(',').any(|x| x == target)).unwrap_or(false) {
                    while em.out.last().map(|l| l.trim_start().starts_with("#[") && l.trim_end().ends_with(']')).unwrap_or(false) {
                        em.out.pop();
                    }
                    em.push_raw(&format!("// vx: //@fn {target} dropped (VX_DROP_FNS)"));
                    dropped_fns.push(target.clone());
                    continue;
                }
                let nth = o.get("nth").and_then(|x| x.parse().ok()).unwrap_or(usize::MAX);
                let (src, f) = files.get(&file)?;
                let _ = src;
                let found = find_fn(f, ty, name, o.get("trait").map(|s| s.as_str()), nth)?;
                let (mut sig, mut body, attrs_unsafe) = match found {
                    Found::Method(m) => (m.sig, m.block, false),
                    Found::Free(func) => (func.sig, *func.block, false),
                };
                let _ = attrs_unsafe;
                let mut src_line = sig.ident.span().start().line;
                let mut orig_text = norm(&body.to_token_stream());
                let orig_sig = norm(&sig.to_token_stream());
                if !optdesugar.is_empty() {
                    let mut od = OptDesugar { methods: optdesugar.clone(), log: vec![] };
                    od.visit_block_mut(&mut body);
                    rewrites.extend(od.log.drain(..).map(|mut l| { l["in"] = json!(target); l["file"] = json!(file); l }));
                }
                {
                    let mut fe = ForEach { log: vec![] };
                    fe.visit_block_mut(&mut body);
                    rewrites.extend(fe.log.drain(..).map(|mut l| { l["in"] = json!(target); l["file"] = json!(file); l }));
                }
                {
                    let mut bv = BreakValue { log: vec![], n: 0 };
                    bv.visit_block_mut(&mut body);
                    rewrites.extend(bv.log.drain(..).map(|mut l| { l["in"] = json!(target); l["file"] = json!(file); l }));
                    let mut ce = ContinueElim { log: vec![] };
                    ce.visit_block_mut(&mut body);
                    rewrites.extend(ce.log.drain(..).map(|mut l| { l["in"] = json!(target); l["file"] = json!(file); l }));
                }
                // R11: closures — lift the n-th closure's body into a function of its own (`closure=<n> sig="..."`),
                // and/or replace closures at their use site (`//@closuremap n => expr`).
                let mut cl = Closures { found: vec![], replace: closure_repl.clone(), log: vec![] };
                if let Some(nstr) = o.get("closure") {
                    let n: usize = nstr.parse().map_err(|_| "bad closure= ordinal".to_string())?;
                    let mut probe = Closures { found: vec![], replace: HashMap::new(), log: vec![] };
                    probe.visit_block_mut(&mut body);
                    let c = probe.found.get(n).ok_or(format!("lost-anchor closure #{n} in {target}"))?.clone();
                    body = match *c.body {
                        Expr::Block(b) => b.block,
                        other => Block { brace_token: Default::default(), stmts: vec![Stmt::Expr(other, None)] },
                    };
                    rewrites.push(json!({"rule": "R11", "in": target, "file": file, "src_line": c.or1_token.span.start().line,
                        "before": format!("closure #{n} of {target}"), "after": "lifted into a function of its own (captured variables become parameters)"}));
                } else if let Some(armtxt) = o.get("arm") {
                    // R12: one arm of a `match` lifted into a function of its own: `arm=<pattern>` (whitespace-free pattern text,
                    // `|` alternatives included), body = the arm's block followed by `tail=<expr>` (what the original function
                    // does after the match). Dropped: the dispatcher around the arm; locals it uses become parameters (sig: line).
                    let want = norm_str(armtxt).ok_or(format!("bad arm= text in {target}"))?;
                    struct FindArm { want: String, nth: usize, seen: usize, found: Option<syn::Arm> }
                    impl<'ast> syn::visit::Visit<'ast> for FindArm {
                        fn visit_arm(&mut self, a: &'ast syn::Arm) {
                            if self.found.is_none() && norm(&a.pat.to_token_stream()) == self.want {
                                self.seen += 1;
                                if self.seen == self.nth {
                                    self.found = Some(a.clone());
                                }
                            }
                            syn::visit::visit_arm(self, a);
                        }
                    }
                    // `occ=<N>`: the N-th arm with this pattern text in source order (default the first)
                    let mut fa = FindArm { want, nth: o.get("occ").and_then(|x| x.parse().ok()).unwrap_or(1), seen: 0, found: None };
                    syn::visit::Visit::visit_block(&mut fa, &body);
                    let arm = fa.found.ok_or(format!("lost-anchor arm `{armtxt}` in {target}"))?;
                    let line = arm.fat_arrow_token.spans[0].start().line;
                    let mut blk = match *arm.body {
                        Expr::Block(b) => b.block,
                        other => Block { brace_token: Default::default(), stmts: vec![Stmt::Expr(other, Some(Default::default()))] },
                    };
                    if let Some(t) = o.get("tail") {
                        let te: Expr = parse_str(t).map_err(|e| format!("bad tail= in {target}: {e}"))?;
                        blk.stmts.push(Stmt::Expr(te, None));
                    }
                    body = blk;
                    orig_text = norm(&body.to_token_stream());
                    src_line = line;
                    rewrites.push(json!({"rule": "R12", "in": target, "file": file, "src_line": line,
                        "before": format!("match arm `{armtxt}` of {target}"), "after": "lifted into a function of its own (locals it uses become parameters; the dispatcher around it is dropped)"}));
                } else if let Some(pattxt) = o.get("iflet") {
                    // R12b: the then-block of an `if let <pattern> = ..` lifted into a function of its own (`iflet=<pattern>`),
                    // same conventions as `arm=` (tail=, sig: line; the bound variable becomes a parameter)
                    let want = norm_str(pattxt).ok_or(format!("bad iflet= text in {target}"))?;
                    struct FindIf { want: String, found: Option<(Block, usize)> }
                    impl<'ast> syn::visit::Visit<'ast> for FindIf {
                        fn visit_expr_if(&mut self, e: &'ast syn::ExprIf) {
                            if self.found.is_none() {
                                if let Expr::Let(l) = &*e.cond {
                                    if norm(&l.pat.to_token_stream()) == self.want {
                                        self.found = Some((e.then_branch.clone(), e.if_token.span.start().line));
                                    }
                                }
                            }
                            syn::visit::visit_expr_if(self, e);
                        }
                    }
                    let mut fi = FindIf { want, found: None };
                    syn::visit::Visit::visit_block(&mut fi, &body);
                    let (mut blk, line) = fi.found.ok_or(format!("lost-anchor iflet `{pattxt}` in {target}"))?;
                    if let Some(t) = o.get("tail") {
                        let te: Expr = parse_str(t).map_err(|e| format!("bad tail= in {target}: {e}"))?;
                        blk.stmts.push(Stmt::Expr(te, None));
                    }
                    body = blk;
                    orig_text = norm(&body.to_token_stream());
                    src_line = line;
                    rewrites.push(json!({"rule": "R12", "in": target, "file": file, "src_line": line,
                        "before": format!("then-block of `if let {pattxt} = ..` in {target}"), "after": "lifted into a function of its own (the bound variable and the locals it uses become parameters)"}));
                } else if let Some(condtxt) = o.get("ifcond") {
                    // R12d: the then-block of a plain `if <cond> { .. }` lifted into a function of its own (`ifcond=<cond>`, optional
                    // `occ=<N>` for the N-th such statement in source order). Dropped: the condition itself (the contract of the lifted
                    // function states it as a precondition where it matters) and everything around the block.
                    let want = norm_str(condtxt).ok_or(format!("bad ifcond= text in {target}"))?;
                    let nth_want: usize = o.get("occ").and_then(|x| x.parse().ok()).unwrap_or(1);
                    struct FindIfC { want: String, nth: usize, seen: usize, found: Option<(Block, usize)> }
                    impl<'ast> syn::visit::Visit<'ast> for FindIfC {
                        fn visit_expr_if(&mut self, e: &'ast syn::ExprIf) {
                            if self.found.is_none() && norm(&e.cond.to_token_stream()) == self.want {
                                self.seen += 1;
                                if self.seen == self.nth {
                                    self.found = Some((e.then_branch.clone(), e.if_token.span.start().line));
                                }
                            }
                            syn::visit::visit_expr_if(self, e);
                        }
                    }
                    let mut fi = FindIfC { want, nth: nth_want, seen: 0, found: None };
                    syn::visit::Visit::visit_block(&mut fi, &body);
                    let (mut blk, line) = fi.found.ok_or(format!("lost-anchor ifcond `{condtxt}` in {target}"))?;
                    if let Some(t) = o.get("tail") {
                        let te: Expr = parse_str(t).map_err(|e| format!("bad tail= in {target}: {e}"))?;
                        blk.stmts.push(Stmt::Expr(te, None));
                    }
                    body = blk;
                    orig_text = norm(&body.to_token_stream());
                    src_line = line;
                    rewrites.push(json!({"rule": "R12", "in": target, "file": file, "src_line": line,
                        "before": format!("then-block of `if {condtxt}` in {target}"), "after": "lifted into a function of its own (the locals it uses become parameters; the condition and the code around it are dropped)"}));
                } else if let Some(pattxt) = o.get("forbody") {
                    // R12c: the body of a `for <pattern> in ..` loop lifted into a function of its own (`forbody=<pattern>`): what one
                    // iteration does to the element it is given. Dropped: the loop itself (which elements are visited, in which order).
                    let want = norm_str(pattxt).ok_or(format!("bad forbody= text in {target}"))?;
                    struct FindFor { want: String, found: Option<(Block, usize)> }
                    impl<'ast> syn::visit::Visit<'ast> for FindFor {
                        fn visit_expr_for_loop(&mut self, e: &'ast syn::ExprForLoop) {
                            if self.found.is_none() && norm(&e.pat.to_token_stream()) == self.want {
                                self.found = Some((e.body.clone(), e.for_token.span.start().line));
                            }
                            syn::visit::visit_expr_for_loop(self, e);
                        }
                    }
                    let mut ff = FindFor { want, found: None };
                    syn::visit::Visit::visit_block(&mut ff, &body);
                    let (mut blk, line) = ff.found.ok_or(format!("lost-anchor forbody `{pattxt}` in {target}"))?;
                    if let Some(t) = o.get("tail") {
                        let te: Expr = parse_str(t).map_err(|e| format!("bad tail= in {target}: {e}"))?;
                        blk.stmts.push(Stmt::Expr(te, None));
                    }
                    body = blk;
                    orig_text = norm(&body.to_token_stream());
                    src_line = line;
                    rewrites.push(json!({"rule": "R12", "in": target, "file": file, "src_line": line,
                        "before": format!("body of `for {pattxt} in ..` in {target}"), "after": "lifted into a function of its own (the loop variable and the locals it uses become parameters; the loop around it is dropped)"}));
                } else {
                    cl.visit_block_mut(&mut body);
                    for n in closure_repl.keys() {
                        if *n >= cl.found.len() {
                            return Err(format!("lost-anchor closuremap #{n} in {target} ({} closures)", cl.found.len()));
                        }
                    }
                    rewrites.extend(cl.log.drain(..).map(|mut l| { l["in"] = json!(target); l["file"] = json!(file); l }));
                }

                // pass 1: markers
                for (n, wf) in &loop_wrap {
                    rewrites.push(json!({"rule": "R6", "in": target, "file": file, "src_line": 0, "before": format!("iterable of loop {n}"), "after": format!("{wf}(<iterable>)")}));
                }
                let mut mk = Marker {
                    wrap_iter: loop_wrap.clone(),
                    next_loop: 0,
                    named_iter: loops.iter().filter(|(_, v)| v.1.is_some()).map(|(k, _)| *k).collect(),
                    ats: ats.iter().enumerate().map(|(k, (a, _))| (a.clone(), k)).collect(),
                    placed: HashSet::new(),
                    seen: HashMap::new(),
                    loops: vec![],
                };
                mark_fn_body(&mut mk, &mut body);
                for (k, (a, _)) in ats.iter().enumerate() {
                    if !mk.placed.contains(&k) {
                        return Err(format!("lost-anchor //@at {:?} in {target}", a));
                    }
                }
                // a loop spec whose loop no longer exists is not fatal (the body is verified as it stands); it is logged
                for n in loops.keys() {
                    if *n >= mk.next_loop {
                        unused_local.push(json!({"fn": target, "loop_spec_without_loop": n}));
                    }
                }
                // pass 2: rewrites
                let mut rw = Rw::new(&local);
                rw.visit_block_mut(&mut body);
                rw.visit_signature_mut(&mut sig);
                if !rw.errors.is_empty() {
                    return Err(format!("{target}: {}", rw.errors.join("; ")));
                }
                used_expr.extend(rw.used_expr.iter().cloned());
                used_type.extend(rw.used_type.iter().cloned());
                // fn-local exprmap keys must all be used (otherwise the anchor text drifted)
                // a fn-local exprmap whose key no longer occurs is not fatal: the rewrite was a convenience for Verus, not a
                // claim about the code. The body is then verified as it stands (and is undecided only if Verus cannot read it).
                for (k, _) in &local.exprmap {
                    if !unit_exprmap_keys.contains(k) && !rw.used_expr.contains(k) {
                        unused_local.push(json!({"fn": target, "exprmap": k, "rename": o.get("rename")}));
                    }
                }
                rewrites.extend(rw.log.into_iter().map(|mut l| {
                    l["in"] = json!(target);
                    l["file"] = json!(file);
                    l
                }));

                // `defspec`: a small pure function (no receiver, body one expression) whose meaning callers need: a spec function with
                // the same parameters and the same body text is emitted in front of it and `ensures r == sp_def_<name>(args)` is added to
                // its contract; the executable body is then verified against it (nothing is assumed). Used by check.py for helper
                // functions that did not exist at the baseline commit (extract-method of a predicate).
                if o.contains_key("defspec") {
                    let one_expr = body.stmts.len() == 1 && matches!(&body.stmts[0], Stmt::Expr(_, None));
                    if sig.receiver().is_some() || !one_expr {
                        return Err(format!("defspec: {target} is not a receiver-free single-expression function"));
                    }
                    let mut names: Vec<String> = vec![];
                    for a in sig.inputs.iter() {
                        if let syn::FnArg::Typed(pt) = a {
                            if let syn::Pat::Ident(pi) = &*pt.pat { names.push(pi.ident.to_string()); } else { return Err(format!("defspec: {target}: pattern parameter")); }
                        }
                    }
                    let rt = match &sig.output { ReturnType::Type(_, t) => t.to_token_stream().to_string(), _ => return Err(format!("defspec: {target}: no return type")) };
                    let pad0 = " ".repeat(indent);
                    em.push_raw(&format!("{pad0}pub open spec fn sp_def_{}({}) -> {} {{ {} }}", name, sig.inputs.to_token_stream(), rt, body.stmts[0].to_token_stream()));
                    contract.push(format!("{pad0}    ensures r == {}sp_def_{}({}),", if ty.is_empty() { "".to_string() } else { "Self::".to_string() }, name, names.join(", ")));
                    rewrites.push(json!({"rule": "defspec", "in": target, "file": file, "src_line": src_line, "before": "function without contract", "after": "definitional contract: the result is the function's own body read as a specification"}));
                }
                // signature
                let retvar = o.get("ret").cloned().unwrap_or_else(|| "r".to_string());
                let newname = o.get("rename").cloned().unwrap_or_else(|| name.to_string());
                let mut sigtxt = String::new();
                if !o.contains_key("nopub") {
                    sigtxt.push_str("pub ");
                }
                sigtxt.push_str("fn ");
                sigtxt.push_str(&newname);
                let gens = sig.generics.params.to_token_stream().to_string();
                if !gens.is_empty() {
                    sigtxt.push_str(&format!("<{}>", gens));
                }
                let sp0 = Splices::default();
                let mut prs = Printer::new(&sp0, 0);
                prs.stream(sig.inputs.to_token_stream());
                let (pl, _) = prs.finish();
                let inputs = lines_to_text(&pl).iter().map(|s| s.trim().to_string()).collect::<Vec<_>>().join(" ");
                sigtxt.push_str(&format!("({})", inputs));
                if let ReturnType::Type(_, rt) = &sig.output {
                    let mut prt = Printer::new(&sp0, 0);
                    prt.stream(rt.to_token_stream());
                    let (rl, _) = prt.finish();
                    let rts = lines_to_text(&rl).iter().map(|s| s.trim().to_string()).collect::<Vec<_>>().join(" ");
                    sigtxt.push_str(&format!(" -> ({}: {})", retvar, rts));
                }
                if let Some(wc) = &sig.generics.where_clause {
                    sigtxt.push_str(&format!(" {}", wc.to_token_stream()));
                }
                // a lifted closure has no signature of its own: the template supplies it on a contract line `sig: <text>`
                if o.contains_key("closure") || o.contains_key("arm") || o.contains_key("iflet") || o.contains_key("forbody") || o.contains_key("ifcond") || o.contains_key("ghostsig") {
                    let pos = contract.iter().position(|l| l.trim_start().starts_with("sig:")).ok_or("closure= needs a `sig: fn name(..) -> (r: T)` line")?;
                    let l = contract.remove(pos);
                    sigtxt = l.trim_start()["sig:".len()..].trim().to_string();
                    if o.contains_key("ghostsig") {
                        // R14: the whole function is copied, but its signature is the template's (the executable parameters as in the
                        // source plus ghost/tracked ones the contract talks about); the source signature is kept in the log
                        rewrites.push(json!({"rule": "R14", "in": target, "file": file, "src_line": src_line,
                            "before": orig_sig.clone(), "after": sigtxt.clone()}));
                    }
                }
                let pad = " ".repeat(indent);
                // attribute lines written in the template right above the directive (replicated for the canary copy)
                let mut attr_lines: Vec<String> = vec![];
                {
                    let mut k = em.out.len();
                    while k > 0 && em.out[k - 1].trim_start().starts_with("#[") && em.out[k - 1].trim_end().ends_with(']') {
                        attr_lines.insert(0, em.out[k - 1].clone());
                        k -= 1;
                    }
                }
                let sigonly = o.contains_key("sigonly");
                let is_trait_impl = o.contains_key("trait");
                // pass kinds: 0 = real, 1 = canary `ensures false`, 2+n = canary `assert(false)` in loop n
                let mut passes: Vec<usize> = vec![0];
                if canary && !sigonly && !is_trait_impl {
                    passes.push(1);
                    for n in 0..mk.next_loop {
                        passes.push(2 + n);
                    }
                }
                let mut rec = json!({});
                let mut canaries: Vec<J> = vec![];
                for pass in passes {
                    let is_can = pass > 0;
                    let hdr_start = em.out.len() + 1;
                    let suffix = if pass == 0 { String::new() } else if pass == 1 { "__vxcanary".to_string() } else { format!("__vxcanary_loop{}", pass - 2) };
                    let sig_here = if is_can { sigtxt.replacen(&format!("fn {newname}"), &format!("fn {newname}{suffix}"), 1) } else { sigtxt.clone() };
                    if is_can {
                        for a in &attr_lines {
                            em.push_raw(a);
                        }
                    }
                    em.push_raw(&format!("{pad}// vx: fn {target} body copied from {file}:{src_line}{}", if is_can { " (CANARY COPY)" } else { "" }));
                    em.push_raw(&format!("{pad}{sig_here}"));
                    let mut ctext = contract.join("\n");
                    if pass == 1 {
                        if let Some(pos) = find_kw(&ctext, "ensures") {
                            ctext.insert_str(pos + "ensures".len(), " false,");
                        } else if let Some(pos) = find_kw(&ctext, "decreases") {
                            ctext.insert_str(pos, "ensures false,\n");
                        } else {
                            ctext.push_str(&format!("\n{pad}    ensures false,"));
                        }
                    }
                    for l in ctext.lines() {
                        em.push_raw(l);
                    }
                    if sigonly {
                        // stub: signature mechanically copied, body dropped (external_body is written in the template)
                        em.push_raw(&format!("{pad}{{ unimplemented!() }}"));
                        rec = json!({"fn": target, "file": file, "src_line": src_line, "sigonly": true, "signature": orig_sig, "hdr_start": hdr_start, "out_end": em.out.len(), "contract": contract.join("\n")});
                        continue;
                    }
                    let mut sp = Splices::default();
                    sp.canary_loop = if pass >= 2 { Some(pass - 2) } else { None };
                    sp.loops = loops.clone();
                    for (k, (_, txt)) in ats.iter().enumerate() {
                        sp.ats.insert(k, txt.clone());
                    }
                    let mut pr = Printer::new(&sp, 0);
                    pr.stream(body.to_token_stream());
                    let (bl, _) = pr.finish();
                    let start = em.out.len() + 1;
                    em.push_lines(&bl, &file, &target);
                    let end = em.out.len();
                    if is_can {
                        canaries.push(json!({"kind": if pass == 1 { "ensures_false".to_string() } else { format!("loop{}", pass - 2) }, "start": hdr_start, "end": end}));
                    } else {
                        rec = json!({
                            "fn": target, "file": file, "src_line": src_line,
                            "hdr_start": hdr_start, "out_start": start, "out_end": end,
                            "signature": orig_sig,
                            "body_tokens": orig_text,
                            "loops": mk.loops.iter().map(|(n, l, k)| json!({"n": n, "src_line": l, "kind": k, "has_spec": loops.contains_key(n)})).collect::<Vec<_>>(),
                            "contract": contract.join("\n"),
                            "trait_impl": is_trait_impl,
                        });
                        if newname != name {
                            // lifted closure / match arm / renamed function: the name Verus knows it by
                            let tyname = target.rsplit_once("::").map(|(t, _)| t.to_string()).unwrap_or_default();
                            rec["emitted_as"] = json!(format!("{tyname}::{newname}"));
                            if let Some(a) = o.get("arm") { rec["lifted"] = json!(format!("match arm `{a}`")); }
                            if let Some(a) = o.get("iflet") { rec["lifted"] = json!(format!("then-block of `if let {a}`")); }
                            if let Some(a) = o.get("forbody") { rec["lifted"] = json!(format!("body of `for {a} in ..`")); }
                            if let Some(a) = o.get("ifcond") { rec["lifted"] = json!(format!("then-block of `if {a}`")); }
                            if let Some(c) = o.get("closure") { rec["lifted"] = json!(format!("closure #{c}")); }
                        }
                    }
                }
                if !sigonly {
                    rec["canaries"] = json!(canaries);
                }
                fucs.push(rec);
            }
            other => return Err(format!("unknown directive //@{other}")),
        }
    }
    // unit-wide maps that never fired are reported (not fatal: a unit-wide map may serve several fns)
    let unused_expr: Vec<String> = unit_exprmap_keys.iter().filter(|k| !used_expr.contains(*k)).cloned().collect();
    let log = json!({
        "unit": unit_path,
        "canary": canary,
        "functions": fucs,
        "types": types,
        "rewrites": rewrites,
        "line_map": em.map,
        "unused_unit_exprmaps": unused_expr,
        "unused_local_exprmaps": unused_local,
        "dropped_fns": dropped_fns,
    });
    Ok(RunResult { text: em.out.join("\n") + "\n", log })
}

fn walk_rs(dir: &std::path::Path, out: &mut Vec<std::path::PathBuf>) {
    if let Ok(rd) = std::fs::read_dir(dir) {
        for e in rd.flatten() {
            let p = e.path();
            if p.is_dir() {
                walk_rs(&p, out);
            } else if p.extension().map(|x| x == "rs").unwrap_or(false) {
                out.push(p);
            }
        }
    }
}

/// all `<relative file>\t<trait or ->` where `impl ty { fn name }` (or a free `fn name`) is defined
pub fn locate(repo: &str, ty: &str, name: &str) -> Vec<String> {
    let mut files = vec![];
    for sub in ["runtime/src", "rinklecate/src"] {
        walk_rs(&std::path::Path::new(repo).join(sub), &mut files);
    }
    files.sort();
    let mut hits = vec![];
    for f in files {
        let Ok(src) = std::fs::read_to_string(&f) else { continue };
        let Ok(parsed) = syn::parse_file(&src) else { continue };
        let rel = f.strip_prefix(repo).unwrap_or(&f).to_string_lossy().trim_start_matches('/').to_string();
        fn scan(items: &[Item], ty: &str, name: &str, rel: &str, hits: &mut Vec<String>) {
            for it in items {
                match it {
                    Item::Impl(im) if !ty.is_empty() && self_ty_name(&im.self_ty).as_deref() == Some(ty) => {
                        for ii in &im.items {
                            if let ImplItem::Fn(m) = ii {
                                if m.sig.ident == name {
                                    let tr = im.trait_.as_ref().map(|(_, p, _)| norm(&p.to_token_stream())).unwrap_or("-".into());
                                    hits.push(format!("{rel}\t{tr}"));
                                }
                            }
                        }
                    }
                    Item::Fn(func) if ty.is_empty() && func.sig.ident == name => hits.push(format!("{rel}\t-")),
                    Item::Mod(m) => {
                        if let Some((_, its)) = &m.content {
                            scan(its, ty, name, rel, hits);
                        }
                    }
                    _ => {}
                }
            }
        }
        scan(&parsed.items, ty, name, &rel, &mut hits);
    }
    hits
}

fn expand_includes(path: &str, depth: usize) -> std::result::Result<String, String> {
    if depth > 8 {
        return Err(format!("include depth exceeded at {path}"));
    }
    let tpl = std::fs::read_to_string(path).map_err(|e| format!("cannot read unit {path}: {e}"))?;
    let dir = std::path::Path::new(path).parent().map(|p| p.to_path_buf()).unwrap_or_default();
    let mut out = String::new();
    for l in tpl.lines() {
        if let Some(rest) = l.trim_start().strip_prefix("//@include ") {
            let inc = dir.join(rest.trim());
            out.push_str(&format!("// vx: begin include {}\n", rest.trim()));
            out.push_str(&expand_includes(inc.to_str().unwrap(), depth + 1)?);
            out.push_str(&format!("// vx: end include {}\n", rest.trim()));
        } else {
            out.push_str(l);
            out.push('\n');
        }
    }
    Ok(out)
}

fn find_kw(text: &str, kw: &str) -> Option<usize> {
    let mut start = 0;
    while let Some(p) = text[start..].find(kw) {
        let pos = start + p;
        let before_ok = pos == 0 || !text.as_bytes()[pos - 1].is_ascii_alphanumeric() && text.as_bytes()[pos - 1] != b'_';
        let after = pos + kw.len();
        let after_ok = after >= text.len() || !text.as_bytes()[after].is_ascii_alphanumeric() && text.as_bytes()[after] != b'_';
        // skip occurrences in line comments
        let line_start = text[..pos].rfind('\n').map(|x| x + 1).unwrap_or(0);
        let in_comment = text[line_start..pos].contains("//");
        if before_ok && after_ok && !in_comment {
            return Some(pos);
        }
        start = pos + kw.len();
    }
    None
}
