//! Token printer: keeps the original line structure (a new output line is started whenever
//! the source line of the next token changes), so Verus diagnostics on the generated file
//! can be mapped back to `/repo` line numbers, and splices the Verus-only syntax
//! (loop invariants, `for x in it: e`, proof hints) at the markers left by `rewrite`.

use proc_macro2::{Delimiter, Spacing, Span, TokenStream, TokenTree};
use std::collections::HashMap;

#[derive(Clone, Debug)]
pub struct OutLine {
    pub text: String,
    pub src_line: Option<usize>,
}

#[derive(Default)]
pub struct Splices {
    /// loop ordinal -> (invariant/decreases text, optional iterator name)
    pub loops: HashMap<usize, (String, Option<String>)>,
    /// marker id -> raw text
    pub ats: HashMap<usize, String>,
    /// loop ordinal that gets `assert(false)` at its body start (vacuity canary)
    pub canary_loop: Option<usize>,
}

pub struct Printer<'a> {
    pub lines: Vec<OutLine>,
    cur: String,
    cur_src: Option<usize>,
    last_src: usize,
    prev_joint: bool,
    prev_text: String,
    sp: &'a Splices,
    base_indent: usize,
    pub used_loops: Vec<usize>,
}

fn has_loc(s: Span) -> bool {
    !s.byte_range().is_empty()
}

const KW_BEFORE_PAREN: &[&str] = &["if", "while", "match", "in", "return", "for", "let", "else", "as", "loop", "mut", "move", "break"];

impl<'a> Printer<'a> {
    pub fn new(sp: &'a Splices, base_indent: usize) -> Self {
        Printer {
            lines: vec![],
            cur: String::new(),
            cur_src: None,
            last_src: 0,
            prev_joint: false,
            prev_text: String::new(),
            sp,
            base_indent,
            used_loops: vec![],
        }
    }

    fn newline(&mut self) {
        if !self.cur.trim().is_empty() {
            let text = std::mem::take(&mut self.cur);
            self.lines.push(OutLine { text, src_line: self.cur_src });
        } else {
            self.cur.clear();
        }
        self.cur_src = None;
        self.prev_joint = false;
        self.prev_text.clear();
    }

    pub fn raw(&mut self, text: &str) {
        self.newline();
        for l in text.lines() {
            self.lines.push(OutLine { text: format!("{}{}", " ".repeat(self.base_indent + 4), l), src_line: None });
        }
    }

    fn emit(&mut self, s: &str, span: Span, joint: bool) {
        if has_loc(span) {
            let lc = span.start();
            if lc.line != self.last_src {
                self.newline();
                self.cur = " ".repeat(self.base_indent + lc.column);
                self.last_src = lc.line;
            }
            if self.cur_src.is_none() {
                self.cur_src = Some(lc.line);
            }
        }
        let need_space = if self.cur.trim().is_empty() || self.prev_joint {
            false
        } else {
            let p = self.prev_text.as_str();
            let no_before = matches!(s, ")" | "]" | "," | ";" | "." | "?");
            let no_after = matches!(p, "(" | "[" | "." | "!" ) || (p == "&" && false);
            let call_paren = (s == "(" || s == "[")
                && p.chars().last().map(|c| c.is_alphanumeric() || c == '_' || c == ')' || c == ']' || c == '>').unwrap_or(false)
                && !KW_BEFORE_PAREN.contains(&p);
            let macro_bang = s == "!" && p.chars().last().map(|c| c.is_alphanumeric() || c == '_').unwrap_or(false);
            !(no_before || no_after || call_paren || macro_bang)
        };
        if need_space {
            self.cur.push(' ');
        }
        self.cur.push_str(s);
        self.prev_joint = joint;
        self.prev_text = s.to_string();
    }

    fn marker_id(t: &TokenTree, prefix: &str) -> Option<usize> {
        if let TokenTree::Ident(id) = t {
            let s = id.to_string();
            if let Some(rest) = s.strip_prefix(prefix) {
                return rest.parse().ok();
            }
        }
        None
    }

    fn is_punct(t: Option<&TokenTree>, c: char) -> bool {
        matches!(t, Some(TokenTree::Punct(p)) if p.as_char() == c)
    }

    pub fn stream(&mut self, ts: TokenStream) {
        let toks: Vec<TokenTree> = ts.into_iter().collect();
        let mut i = 0;
        while i < toks.len() {
            let t = &toks[i];
            // __VX_AT_k ;
            if let Some(k) = Self::marker_id(t, "__VX_AT_") {
                if Self::is_punct(toks.get(i + 1), ';') {
                    let txt = self.sp.ats.get(&k).cloned().unwrap_or_default();
                    self.raw(&txt);
                    i += 2;
                    continue;
                }
            }
            // __VX_IT_n ( E )
            if let Some(n) = Self::marker_id(t, "__VX_IT_") {
                if let Some(TokenTree::Group(g)) = toks.get(i + 1) {
                    if g.delimiter() == Delimiter::Parenthesis {
                        if let Some((_, Some(name))) = self.sp.loops.get(&n) {
                            self.emit(name, Span::call_site(), false);
                            self.emit(":", Span::call_site(), false);
                        }
                        self.stream(g.stream());
                        i += 2;
                        continue;
                    }
                }
            }
            match t {
                TokenTree::Group(g) => {
                    let (o, c) = match g.delimiter() {
                        Delimiter::Parenthesis => ("(", ")"),
                        Delimiter::Brace => ("{", "}"),
                        Delimiter::Bracket => ("[", "]"),
                        Delimiter::None => ("", ""),
                    };
                    let inner: Vec<TokenTree> = g.stream().into_iter().collect();
                    let mut skip = 0;
                    let mut loop_n = None;
                    if g.delimiter() == Delimiter::Brace {
                        if let Some(first) = inner.first() {
                            if let Some(n) = Self::marker_id(first, "__VX_LOOP_") {
                                if Self::is_punct(inner.get(1), ';') {
                                    skip = 2;
                                    loop_n = Some(n);
                                }
                            }
                        }
                    }
                    if let Some(n) = loop_n {
                        if let Some((txt, _)) = self.sp.loops.get(&n) {
                            if !txt.trim().is_empty() {
                                let t2 = txt.clone();
                                self.raw(&t2);
                            }
                            self.used_loops.push(n);
                        }
                    }
                    if !o.is_empty() {
                        self.emit(o, g.span_open(), false);
                    }
                    if loop_n.is_some() && loop_n == self.sp.canary_loop {
                        self.raw("assert(false); // VXCANARY-LOOP");
                    }
                    let rest: TokenStream = inner.into_iter().skip(skip).collect();
                    self.stream(rest);
                    if !c.is_empty() {
                        self.emit(c, g.span_close(), false);
                    }
                }
                TokenTree::Ident(id) => self.emit(&id.to_string(), id.span(), false),
                TokenTree::Punct(p) => {
                    self.emit(&p.as_char().to_string(), p.span(), p.spacing() == Spacing::Joint)
                }
                TokenTree::Literal(l) => self.emit(&l.to_string(), l.span(), false),
            }
            i += 1;
        }
    }

    pub fn finish(mut self) -> (Vec<OutLine>, Vec<usize>) {
        self.newline();
        (self.lines, self.used_loops)
    }
}

/// whitespace-free token text, used to compare expressions/types with template keys
pub fn norm(ts: &TokenStream) -> String {
    let mut s = String::new();
    for t in ts.clone() {
        match t {
            TokenTree::Group(g) => {
                let (o, c) = match g.delimiter() {
                    Delimiter::Parenthesis => ("(", ")"),
                    Delimiter::Brace => ("{", "}"),
                    Delimiter::Bracket => ("[", "]"),
                    Delimiter::None => ("", ""),
                };
                s.push_str(o);
                s.push_str(&norm(&g.stream()));
                s.push_str(c);
            }
            TokenTree::Ident(i) => {
                // keep a separator between adjacent identifiers/keywords
                if s.chars().last().map(|c| c.is_alphanumeric() || c == '_').unwrap_or(false) {
                    s.push(' ');
                }
                s.push_str(&i.to_string());
            }
            TokenTree::Punct(p) => s.push(p.as_char()),
            TokenTree::Literal(l) => {
                if s.chars().last().map(|c| c.is_alphanumeric() || c == '_').unwrap_or(false) {
                    s.push(' ');
                }
                s.push_str(&l.to_string())
            }
        }
    }
    s
}

pub fn norm_str(src: &str) -> Option<String> {
    let ts: TokenStream = src.parse().ok()?;
    Some(norm(&ts))
}
