//! vx — mechanical extractor: splices REAL function bodies / type definitions from
//! the repository under verification into a Verus unit template (`*.vrs`), applying
//! a fixed list of syntactic rewrite rules (R1..R10, see DESIGN.md §2.2), and logs
//! every rule application.  It never invents executable code: everything between
//! the `{` and `}` of a function under contract comes from the repository's AST.
//!
//! usage: vx extract --repo <dir> --unit <unit.vrs> --out <file.rs> --log <file.json> [--canary]
//! exit: 0 ok, 2 lost anchor / unsupported (=> UNDECIDED, never a violation)

mod printer;
mod rewrite;
mod template;

use std::process::exit;

fn main() {
    let args: Vec<String> = std::env::args().collect();
    if args.len() >= 2 && args[1] == "locate" {
        // vx locate --repo <dir> --type <T> --fn <name>: find `impl T { fn name }` (or a free fn when T is empty) in the crate sources
        let mut repo = String::new();
        let mut ty = String::new();
        let mut name = String::new();
        let mut i = 2;
        while i + 1 < args.len() {
            match args[i].as_str() {
                "--repo" => repo = args[i + 1].clone(),
                "--type" => ty = args[i + 1].clone(),
                "--fn" => name = args[i + 1].clone(),
                _ => {}
            }
            i += 2;
        }
        for hit in template::locate(&repo, &ty, &name) {
            println!("{hit}");
        }
        return;
    }
    if args.len() < 2 || args[1] != "extract" {
        eprintln!("usage: vx extract --repo <dir> --unit <unit.vrs> --out <file.rs> --log <file.json> [--canary]");
        exit(64);
    }
    let mut repo = String::new();
    let mut unit = String::new();
    let mut out = String::new();
    let mut log = String::new();
    let mut canary = false;
    let mut i = 2;
    while i < args.len() {
        match args[i].as_str() {
            "--repo" => { repo = args[i + 1].clone(); i += 2; }
            "--unit" => { unit = args[i + 1].clone(); i += 2; }
            "--out" => { out = args[i + 1].clone(); i += 2; }
            "--log" => { log = args[i + 1].clone(); i += 2; }
            "--canary" => { canary = true; i += 1; }
            other => { eprintln!("unknown arg {other}"); exit(64); }
        }
    }
    match template::run(&repo, &unit, canary) {
        Ok(res) => {
            std::fs::write(&out, res.text).expect("write out");
            std::fs::write(&log, serde_json::to_string_pretty(&res.log).unwrap()).expect("write log");
        }
        Err(e) => {
            eprintln!("VX-UNDECIDED {e}");
            exit(2);
        }
    }
}
