#!/usr/bin/env python3
"""seed_recheck.py [--jobs N] [seed dir names..] — regression of the machinery itself: every stored seeded change
(seeded/<Cxx>_<v>/patch.diff) is applied to a scratch copy of /repo and the check of its property is run (no cargo build, no demo:
those were confirmed when the seed was stored). Prints one line per seed: exit code (1 = caught, 2 = undecided, 0 = not noticed) and
the first failing obligation. Patches that no longer apply to the current /repo are reported as such (the code they changed has moved
on). --jobs N: N seeds at a time, each worker in a scratch copy of its own (/tmp/seedrepo_<k>; check.py keeps the build files of
different scratch copies apart)."""
import os, queue, subprocess, sys, threading

ROOT = os.path.dirname(os.path.abspath(__file__))
D = "/tmp/seedrepo"
LOCK = threading.Lock()


def say(s):
    with LOCK:
        print(s)
        sys.stdout.flush()


def one(n, d):
    sd = os.path.join(ROOT, "seeded", n)
    patch = os.path.join(sd, "patch.diff")
    if not os.path.isfile(patch):
        return
    prop = n.split("_")[0]
    rs = subprocess.run(["rsync", "-a", "--delete", "--exclude", "target", "--exclude", ".git/worktrees", "/repo/", d + "/"], stdout=subprocess.DEVNULL, stderr=subprocess.DEVNULL)
    if rs.returncode not in (0, 24):   # 24: a file vanished while copying (lock files of a worktree in use elsewhere)
        say(f"{n:8} rsync failed ({rs.returncode})")
        return
    r = subprocess.run(["git", "apply", patch], cwd=d, capture_output=True, text=True)
    if r.returncode != 0:
        say(f"{n:8} does-not-apply")
        return
    env = dict(os.environ, VERIF_REPO=d)
    r = subprocess.run([sys.executable, os.path.join(ROOT, "check.py"), prop, "quick"], capture_output=True, text=True, env=env)
    ob = [l.strip() for l in r.stdout.splitlines() if "failed obligation" in l]
    und = [l for l in r.stdout.splitlines() if l.startswith("UNDECIDED")]
    first = ob[0][:160] if ob else (und[0][:160] if und else "")
    say(f"{n:8} exit={r.returncode} {first}")
    subprocess.run(["git", "checkout", "-q", "--", "."], cwd=d)


def main():
    args = sys.argv[1:]
    jobs = 1
    if args[:1] == ["--jobs"]:
        jobs = int(args[1])
        args = args[2:]
    names = args or sorted(os.listdir(os.path.join(ROOT, "seeded")))
    q = queue.Queue()
    for n in names:
        q.put(n)

    def worker(k):
        d = D if jobs == 1 else f"{D}_{k}"
        while True:
            try:
                n = q.get_nowait()
            except queue.Empty:
                break
            one(n, d)
        if jobs > 1:
            subprocess.run(["rm", "-rf", d])

    ts = [threading.Thread(target=worker, args=(k,)) for k in range(jobs)]
    for t in ts:
        t.start()
    for t in ts:
        t.join()


if __name__ == "__main__":
    main()
