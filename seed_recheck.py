#!/usr/bin/env python3
"""seed_recheck.py [seed dir names..] — regression of the machinery itself: every stored seeded change (seeded/<Cxx>_<v>/patch.diff) is
applied to a scratch copy of /repo and the check of its property is run (no cargo build, no demo: those were confirmed when the seed
was stored). Prints one line per seed: exit code (1 = caught, 2 = undecided, 0 = not noticed) and the first failing obligation.
Patches that no longer apply to the current /repo are reported as such (the code they changed has moved on)."""
import json, os, subprocess, sys

ROOT = os.path.dirname(os.path.abspath(__file__))
D = "/tmp/seedrepo"


def main():
    names = sys.argv[1:] or sorted(os.listdir(os.path.join(ROOT, "seeded")))
    for n in names:
        sd = os.path.join(ROOT, "seeded", n)
        patch = os.path.join(sd, "patch.diff")
        if not os.path.isfile(patch):
            continue
        prop = n.split("_")[0]
        subprocess.run(["rsync", "-a", "--delete", "--exclude", "target", "/repo/", D + "/"], check=True, stdout=subprocess.DEVNULL)
        r = subprocess.run(["git", "apply", patch], cwd=D, capture_output=True, text=True)
        if r.returncode != 0:
            print(f"{n:8} does-not-apply")
            sys.stdout.flush()
            continue
        env = dict(os.environ, VERIF_REPO=D)
        r = subprocess.run([sys.executable, os.path.join(ROOT, "check.py"), prop, "quick"], capture_output=True, text=True, env=env)
        ob = [l.strip() for l in r.stdout.splitlines() if "failed obligation" in l]
        und = [l for l in r.stdout.splitlines() if l.startswith("UNDECIDED")]
        first = ob[0][:160] if ob else (und[0][:160] if und else "")
        print(f"{n:8} exit={r.returncode} {first}")
        sys.stdout.flush()
        subprocess.run(["git", "checkout", "-q", "--", "."], cwd=D)


if __name__ == "__main__":
    main()
