//! replay — runs witness scenarios against the REAL crate (/repo/runtime, /repo/compiler, current working tree).
//! Each scenario is run by the driver in a child process, in debug and in release, so a panic/abort is an exit status.
//!
//!   replay ink '<ink source>' [ops...]      compile + play; ops: `c` continue maximally, `k<n>` choose n
//! Output: one JSON object on stdout: {"lines":[..],"errors":[..],"warnings":[..],"result":"ok"|"err:<msg>"}
use bladeink::story::Story;
use bladeink_compiler::Compiler;

fn play(src: &str, ops: &[String]) -> serde_json::Value {
    let json = match Compiler::new().compile(src) {
        Ok(j) => j,
        Err(e) => return serde_json::json!({"result": format!("compile-error:{e}")}),
    };
    let mut story = match Story::new(&json) {
        Ok(s) => s,
        Err(e) => return serde_json::json!({"result": format!("load-error:{e}")}),
    };
    let mut lines: Vec<String> = vec![];
    let mut result = "ok".to_string();
    let ops: Vec<String> = if ops.is_empty() { vec!["c".into()] } else { ops.to_vec() };
    for op in ops {
        if op == "c" {
            while story.can_continue() {
                match story.cont() {
                    Ok(l) => lines.push(l),
                    Err(e) => { result = format!("err:{e}"); break; }
                }
            }
        } else if let Some(n) = op.strip_prefix('k') {
            if let Err(e) = story.choose_choice_index(n.parse().unwrap()) { result = format!("err:{e}"); }
        }
    }
    serde_json::json!({
        "lines": lines,
        "errors": story.get_current_errors(),
        "warnings": story.get_current_warnings(),
        "result": result,
    })
}

fn main() {
    let args: Vec<String> = std::env::args().collect();
    match args.get(1).map(|s| s.as_str()) {
        Some("ink") => {
            let out = play(&args[2], &args[3..]);
            println!("{}", out);
        }
        _ => { eprintln!("usage: replay ink '<source>' [ops]"); std::process::exit(64); }
    }
}
