//! replay — runs witness scenarios against the REAL crate (/repo/runtime, /repo/compiler, current working tree).
//! Each scenario is run by the driver in a child process, in debug and in release, so a panic/abort is an exit status.
//!
//!   replay ink '<ink source>' [ops...]      compile + play; ops: `c` continue maximally, `k<n>` choose n
//! Output: one JSON object on stdout: {"lines":[..],"errors":[..],"warnings":[..],"result":"ok"|"err:<msg>"}
use bladeink::story::Story;
use bladeink::story::errors::{ErrorHandler, ErrorType};
use bladeink_compiler::Compiler;
use std::{cell::RefCell, rc::Rc};

struct Obs { log: Rc<RefCell<Vec<String>>> }
impl bladeink::story::variable_observer::VariableObserver for Obs {
    fn changed(&mut self, variable_name: &str, value: &bladeink::value_type::ValueType) {
        let v = match value { bladeink::value_type::ValueType::Int(i) => i.to_string(), bladeink::value_type::ValueType::Bool(b) => b.to_string(), _ => "?".into() };
        self.log.borrow_mut().push(format!("{variable_name}={v}"));
    }
}
struct Ext { log: Rc<RefCell<Vec<String>>> }
impl bladeink::story::external_functions::ExternalFunction for Ext {
    fn call(&mut self, func_name: &str, args: Vec<bladeink::value_type::ValueType>) -> Option<bladeink::value_type::ValueType> {
        let a: Vec<String> = args.iter().map(|v| match v { bladeink::value_type::ValueType::Int(i) => i.to_string(), _ => "?".into() }).collect();
        self.log.borrow_mut().push(format!("{func_name}({})", a.join(",")));
        Some(bladeink::value_type::ValueType::Int(7))
    }
}
struct Collect { msgs: Rc<RefCell<Vec<String>>> }
impl ErrorHandler for Collect {
    fn error(&mut self, message: &str, error_type: ErrorType) {
        let t = if error_type == ErrorType::Warning { "W" } else { "E" };
        self.msgs.borrow_mut().push(format!("{t}:{message}"));
    }
}

fn play(src: &str, ops: &[String]) -> serde_json::Value {
    let json = match Compiler::new().compile(src) {
        Ok(j) => j,
        Err(e) => return serde_json::json!({"result": format!("compile-error:{e}")}),
    };
    // op `v<N>` (must be first): pretend the story was compiled by ink version N (raises the version warning)
    let json = match ops.first().and_then(|o| o.strip_prefix('v')) {
        Some(v) => json.replacen("\"inkVersion\":21", &format!("\"inkVersion\":{v}"), 1),
        None => json,
    };
    let delivered: Rc<RefCell<Vec<String>>> = Rc::new(RefCell::new(vec![]));
    let notes: Rc<RefCell<Vec<String>>> = Rc::new(RefCell::new(vec![]));
    let calls: Rc<RefCell<Vec<String>>> = Rc::new(RefCell::new(vec![]));
    let mut story = match Story::new(&json) {
        Ok(s) => s,
        Err(e) => return serde_json::json!({"result": format!("load-error:{e}")}),
    };
    let mut lines: Vec<String> = vec![];
    let mut result = "ok".to_string();
    let ops: Vec<String> = if ops.is_empty() { vec!["c".into()] } else { ops.to_vec() };
    for op in ops {
        if let Some(var) = op.strip_prefix("o:") {
            if let Err(e) = story.observe_variable(var, Rc::new(RefCell::new(Obs { log: notes.clone() }))) { result = format!("err:{e}"); }
            notes.borrow_mut().push("|".into());
        } else if let Some(var) = op.strip_prefix("ro:") {
            // remove an observer that was never registered
            let stranger: Rc<RefCell<dyn bladeink::story::variable_observer::VariableObserver>> = Rc::new(RefCell::new(Obs { log: notes.clone() }));
            let name = if var.is_empty() { None } else { Some(var) };
            if let Err(e) = story.remove_variable_observer(&stranger, name) { result = format!("err:{e}"); }
        } else if let Some(n) = op.strip_prefix("b:") {
            let (name, mode) = n.split_once(':').unwrap();
            if let Err(e) = story.bind_external_function(name, Rc::new(RefCell::new(Ext { log: calls.clone() })), mode == "safe") { result = format!("err:{e}"); }
        } else if let Some(path) = op.strip_prefix("sv:") {
            match story.save_state() { Ok(j) => { std::fs::write(path, j).unwrap(); } Err(e) => { result = format!("err:{e}"); } }
        } else if let Some(path) = op.strip_prefix("ld:") {
            let j = std::fs::read_to_string(path).unwrap();
            if let Err(e) = story.load_state(&j) { result = format!("err:{e}"); } else { result = "ok".into(); }
        } else if let Some(n) = op.strip_prefix("rf:") {
            if let Err(e) = story.remove_flow(n) { result = format!("err:{e}"); }
        } else if let Some(n) = op.strip_prefix("sf:") {
            if let Err(e) = story.switch_flow(n) { result = format!("err:{e}"); }
        } else if let Some(n) = op.strip_prefix("ef:") {
            let mut out = String::new();
            match story.evaluate_function(n, None, &mut out) { Ok(v) => result = format!("ef:{:?}|{}", v.is_some(), out), Err(e) => result = format!("err:{e}") }
        } else if let Some(n) = op.strip_prefix("tg:") {
            match story.tags_for_content_at_path(n) { Ok(t) => result = format!("tags:{t:?}"), Err(e) => result = format!("err:{e}") }
        } else if let Some(n) = op.strip_prefix("cpn:") {
            if let Err(e) = story.choose_path_string(n, false, None) { result = format!("err:{e}"); }
        } else if let Some(n) = op.strip_prefix("cps:") {
            if let Err(e) = story.choose_path_string(n, true, None) { result = format!("err:{e}"); }
        } else if let Some(n) = op.strip_prefix("set:") {
            let (k, v) = n.split_once('=').unwrap();
            if let Err(e) = story.set_variable(k, &bladeink::value_type::ValueType::Int(v.parse().unwrap())) { result = format!("err:{e}"); }
        } else if op == "r" {
            if let Err(e) = story.reset_state() { result = format!("err:{e}"); }
        } else if op == "h" {
            story.set_error_handler(Rc::new(RefCell::new(Collect { msgs: delivered.clone() })));
        } else if op == "1" {
            match story.cont() {
                Ok(l) => lines.push(l),
                Err(e) => { result = format!("err:{e}"); }
            }
        } else if op == "c" {
            while story.can_continue() {
                match story.cont() {
                    Ok(l) => lines.push(l),
                    Err(e) => { result = format!("err:{e}"); break; }
                }
            }
        } else if let Some(n) = op.strip_prefix('k') {
            if let Err(e) = story.choose_choice_index(n.parse().unwrap()) { result = format!("err:{e}"); }
        }
    }
    serde_json::json!({
        "lines": lines,
        "errors": story.get_current_errors(),
        "warnings": story.get_current_warnings(),
        "result": result,
        "choices": story.get_current_choices().iter().map(|c| c.text.clone()).collect::<Vec<String>>(),
        "can_continue": story.can_continue(),
        "delivered": *delivered.borrow(),
        "notifications": *notes.borrow(),
        "external_calls": *calls.borrow(),
    })
}

#[cfg(bladeink_verif)]
fn hooks(args: &[String]) -> serde_json::Value {
    use bladeink::verif_hooks::*;
    use std::hash::{Hash, Hasher};
    fn h<T: Hash>(t: &T) -> u64 { let mut s = std::collections::hash_map::DefaultHasher::new(); t.hash(&mut s); s.finish() }
    match args[0].as_str() {
        // path-rt <text>: parse, print, re-parse; compare with a path built from the same components
        "path-rt" => {
            let p = Path::new_with_components_string(Some(&args[1]));
            let printed = p.to_string();
            let p2 = Path::new_with_components_string(Some(&printed));
            let mut comps = vec![];
            let mut i = 0;
            while let Some(c) = p.get_component(i) { comps.push(c.clone()); i += 1; }
            let built = Path::new(&comps, p.is_relative());
            serde_json::json!({"input": args[1], "is_relative": p.is_relative(), "printed": printed, "reparsed_equal": p == p2,
                "reparsed_is_relative": p2.is_relative(), "built_equal": built == p, "built_printed": built.to_string(), "hash_equal": h(&built) == h(&p)})
        }
        // path-append <base> <rel>
        "path-append" => {
            let a = Path::new_with_components_string(Some(&args[1]));
            let b = Path::new_with_components_string(Some(&args[2]));
            serde_json::json!({"result": a.path_by_appending_path(&b).to_string()})
        }
        _ => serde_json::json!({"error": "unknown hook scenario"}),
    }
}

fn main() {
    let args: Vec<String> = std::env::args().collect();
    match args.get(1).map(|s| s.as_str()) {
        // json <file>: load a compiled story document as is (exercises whichever loader this build uses) and play it
        Some("json") => {
            let json = std::fs::read_to_string(&args[2]).unwrap();
            let out = match Story::new(&json) {
                Ok(mut story) => {
                    let mut lines = vec![];
                    while story.can_continue() { match story.cont() { Ok(l) => lines.push(l), Err(e) => { lines.push(format!("ERR {e}")); break; } } }
                    serde_json::json!({"lines": lines})
                }
                Err(e) => serde_json::json!({"load_error": e.to_string()}),
            };
            println!("{}", out);
        }
        Some("ink") => {
            let out = play(&args[2], &args[3..]);
            println!("{}", out);
        }
        #[cfg(bladeink_verif)]
        Some("hook") => { println!("{}", hooks(&args[2..])); }
        _ => { eprintln!("usage: replay ink '<source>' [ops]"); std::process::exit(64); }
    }
}
