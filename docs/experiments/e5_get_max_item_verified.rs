use vstd::prelude::*;
use vstd::std_specs::hash::*;
use vstd::std_specs::iter::IteratorSpec;
use std::collections::HashMap;
verus! {

broadcast use {vstd::std_specs::hash::group_hash_axioms, vstd::std_specs::iter::group_iter_axioms};

#[derive(Debug, PartialEq, Eq, Hash, Clone)]
#[verifier::allow(autoderive_clone_without_spec)]
pub struct InkListItem {
    pub origin_name: Option<String>,
    pub item_name: String,
}

pub struct InkList {
    pub items: HashMap<InkListItem, i32>,
}

pub open spec fn is_max(m: Map<InkListItem, i32>, r: Option<(&InkListItem, i32)>) -> bool {
    match r {
        None => m.dom() =~= Set::empty(),
        Some((k, v)) => m.contains_key(*k) && m[*k] == v && forall|k2: InkListItem| #[trigger] m.contains_key(k2) ==> m[k2] <= v,
    }
}

impl InkList {
    pub fn get_max_item(&self) -> (r: Option<(&InkListItem, i32)>)
        requires obeys_key_model::<InkListItem>(),
        ensures is_max(self.items@, r)
    {
        let mut max: Option<(&InkListItem, i32)> = None;

        for (k, v) in it: self.items.iter()
            invariant
                obeys_key_model::<InkListItem>(),
                it.history@ + it.iter.remaining() =~= it.snapshot@.remaining(),
                it.history@.len() == it.index@,
                it.snapshot@.remaining().len() == self.items@.dom().len(),
                forall|i: int| 0 <= i < it.snapshot@.remaining().len() ==> self.items@.contains_key(*(#[trigger] it.snapshot@.remaining()[i]).0)
                     && self.items@[*it.snapshot@.remaining()[i].0] == *it.snapshot@.remaining()[i].1,
                forall|kk: InkListItem| self.items@.contains_key(kk) ==> #[trigger] it.snapshot@.remaining().contains((&kk, &self.items@[kk])),
                match max {
                    None => it.index@ == 0,
                    Some((mk, mv)) => self.items@.contains_key(*mk) && self.items@[*mk] == mv 
                        && forall|j: int| 0 <= j < it.index@ ==> *(#[trigger] it.history@[j]).1 <= mv,
                },
        {
            if max.is_none() || *v > max.as_ref().unwrap().1 {
                max = Some((k, *v));
            }
        }
        max
    }
}

} // verus!
fn main() {}
