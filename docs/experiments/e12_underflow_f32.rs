use vstd::prelude::*;
verus! {
pub struct P { pub components: Vec<u64>, pub is_relative: bool }
impl P {
    // verbatim shape of Path::path_by_appending_path arithmetic
    pub fn app(&self, upward_moves: usize) -> (r: usize)
    {
        let mut n = 0;
        for i in 0..self.components.len() - upward_moves {
            n = i;
        }
        n
    }
}
fn fl(a: f32, b: f32) -> bool { a > b }
fn fa(a: f32, b: f32) -> f32 
  requires vstd::std_specs::ops::AddSpec::add_req(a, b)
{ a + b }
fn cast(a: f32) -> i32 { a as i32 }
fn cast2(a: i32) -> f32 { a as f32 }
} // verus!
fn main() {}
