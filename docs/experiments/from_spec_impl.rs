use vstd::prelude::*;
use std::rc::Rc;
verus! {

pub struct Object { }
pub enum ValueType { Bool(bool), Int(i32), Float(f32) }
pub struct Value { pub obj: Object, pub value: ValueType }

impl From<bool> for ValueType {
    fn from(value: bool) -> ValueType {
        ValueType::Bool(value)
    }
}

impl From<i32> for ValueType {
    fn from(value: i32) -> ValueType {
        ValueType::Int(value)
    }
}

impl<T: Into<ValueType>> From<T> for Value {
    fn from(value: T) -> Self {
        Self::new_value_type(value.into())
    }
}


impl vstd::std_specs::convert::FromSpecImpl<i32> for ValueType {
    open spec fn obeys_from_spec() -> bool { true }
    open spec fn from_spec(v: i32) -> Self { ValueType::Int(v) }
}
impl vstd::std_specs::convert::FromSpecImpl<bool> for ValueType {
    open spec fn obeys_from_spec() -> bool { true }
    open spec fn from_spec(v: bool) -> Self { ValueType::Bool(v) }
}
impl<T: Into<ValueType>> vstd::std_specs::convert::FromSpecImpl<T> for Value {
    open spec fn obeys_from_spec() -> bool { false }
    open spec fn from_spec(v: T) -> Self { arbitrary() }
}
impl Value {
    pub fn new_value_type(valuetype: ValueType) -> Self {
        Self {
            obj: Object{},
            value: valuetype,
        }
    }

    pub fn new<T: Into<Value>>(v: T) -> Self {
        v.into()
    }
}

fn test(a: i32) -> (r: Value)
    ensures r.value == ValueType::Int(a)
{
    Value::new::<i32>(a)
}

} // verus!
fn main() {}
