use vstd::prelude::*;
use vstd::std_specs::iter::IteratorSpec;
verus! {
broadcast use vstd::std_specs::iter::group_iter_axioms;

fn probe(s: &str) {
    let it0 = s.chars();
    assert(it0.remaining() =~= s@);
}

fn count(s: &str) -> (n: usize)
    requires s@.len() < 1000
    ensures n == s@.len()
{
    let mut n: usize = 0;
    for c in it: s.chars()
        invariant
            n == it.index@,
            it.index@ <= s@.len(),
            it.history@ + it.iter.remaining() =~= s@,
            it.history@.len() == it.index@,
    {
        n = n + 1;
    }
    n
}

} // verus!
fn main() {}
