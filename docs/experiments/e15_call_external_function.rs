use vstd::prelude::*;
use vstd::std_specs::hash::*;
use std::collections::HashMap;
use std::rc::Rc;
verus! {
broadcast use vstd::std_specs::hash::group_hash_axioms;

pub enum StoryError { InvalidStoryState(String), BadJson(String), BadArgument(String) }
#[verifier::external_body] pub fn fmt_opaque() -> String { unimplemented!() }
#[verifier::external_body] pub struct ValueType { _p: () }
#[verifier::external_body] pub struct Container { _p: () }
#[verifier::external_body] pub struct RtObj { _p: () }           // Rc<dyn RTObject>
#[verifier::external_body] pub struct DynExternalFunction { _p: () } // Rc<RefCell<dyn ExternalFunction>>

pub struct ExternalFunctionDef { pub function: DynExternalFunction, pub lookahead_safe: bool }

// R4 stand-ins
#[verifier::external_body] pub fn into_value(o: RtObj) -> Result<ValueType, RtObj> { unimplemented!() }
#[verifier::external_body] pub fn value_to_rtobj(v: Option<ValueType>) -> RtObj { unimplemented!() }

pub assume_specification<T>[ <[T]>::reverse ](v: &mut [T])
    ensures final(v)@ == old(v)@.reverse();

pub struct StoryState { pub evaluation_stack: Vec<RtObj>, pub in_string_eval: bool }
impl StoryState {
    #[verifier::external_body]
    pub fn in_string_evaluation(&self) -> (r: bool) ensures r == self.in_string_eval { unimplemented!() }
    pub fn pop_evaluation_stack(&mut self) -> (r: RtObj)
        requires old(self).evaluation_stack@.len() > 0
        ensures final(self).evaluation_stack@ == old(self).evaluation_stack@.drop_last(), r == old(self).evaluation_stack@.last(),
            final(self).in_string_eval == old(self).in_string_eval,
    { self.evaluation_stack.pop().unwrap() }
    pub fn push_evaluation_stack(&mut self, obj: RtObj)
        ensures final(self).evaluation_stack@ == old(self).evaluation_stack@.push(obj)
    { self.evaluation_stack.push(obj); }
}

pub struct Story {
    pub state: StoryState,
    pub state_snapshot_at_last_new_line: Option<StoryState>,
    pub allow_external_function_fallbacks: bool,
    pub saw_lookahead_unsafe_function_after_new_line: bool,
    pub externals: HashMap<String, ExternalFunctionDef>,
}

// protocol precondition lives on the stub of the bound function's call
#[verifier::external_body]
pub fn ext_call(def: &ExternalFunctionDef, func_name: &str, args: Vec<ValueType>,
                Ghost(in_string): Ghost<bool>, Ghost(snapshot): Ghost<bool>) -> (r: Option<ValueType>)
    requires def.lookahead_safe || (!in_string && !snapshot)
{ unimplemented!() }

impl Story {
    pub fn get_state(&self) -> (r: &StoryState) ensures *r == self.state { &self.state }
    pub fn get_state_mut(&mut self) -> (r: &mut StoryState) { &mut self.state }
    #[verifier::external_body]
    pub fn add_error(&mut self, message: &str, is_warning: bool)
        ensures final(self).externals == old(self).externals { unimplemented!() }

    pub(crate) fn call_external_function(
        &mut self,
        func_name: &str,
        number_of_arguments: usize,
    ) -> (r: Result<(), StoryError>)
        requires old(self).state.evaluation_stack@.len() >= number_of_arguments,
    {
        if let Some(func_def) = self.externals.get(func_name) {
            if func_def.lookahead_safe && self.get_state().in_string_evaluation() {
                self.add_error(&fmt_opaque(), false);
                return Ok(());
            }

            if !func_def.lookahead_safe && self.state_snapshot_at_last_new_line.is_some() {
                self.saw_lookahead_unsafe_function_after_new_line = true;
                return Ok(());
            }
        } else {
            return Err(StoryError::InvalidStoryState(fmt_opaque()));
        }

        let mut arguments: Vec<ValueType> = Vec::new();
        for i in 0..number_of_arguments
            invariant
                self.state.evaluation_stack@.len() == old(self).state.evaluation_stack@.len() - i,
                self.externals == old(self).externals,
                self.state_snapshot_at_last_new_line == old(self).state_snapshot_at_last_new_line,
                self.state.in_string_eval == old(self).state.in_string_eval,
        {
            let popped_obj = self.state.pop_evaluation_stack();
            let value_obj = into_value(popped_obj);

            if let Ok(value_obj) = value_obj {
                arguments.push(value_obj);
            } else {
                return Err(StoryError::InvalidStoryState(fmt_opaque()));
            }
        }

        arguments.reverse();

        let func_def = self.externals.get(func_name);
        let func_result = ext_call(func_def.unwrap(), func_name, arguments,
            Ghost(self.state.in_string_eval), Ghost(self.state_snapshot_at_last_new_line is Some));

        let return_obj: RtObj = value_to_rtobj(func_result);
        self.state.push_evaluation_stack(return_obj);

        Ok(())
    }
}
} // verus!
fn main() {}
