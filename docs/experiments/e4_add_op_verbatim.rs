use vstd::prelude::*;
use std::rc::Rc;
verus! {

pub enum StoryError { InvalidStoryState(String), BadJson(String), BadArgument(String) }

pub struct Object { }
pub trait RTObject { fn get_object(&self) -> &Object; }

pub enum ValueType { Bool(bool), Int(i32), Float(f32) }
pub struct Value { pub obj: Object, pub value: ValueType }
impl RTObject for Value { fn get_object(&self) -> &Object { &self.obj } }

impl Value {
    pub fn new_i32(v: i32) -> (r: Value) ensures r.value == ValueType::Int(v) { Value { obj: Object{}, value: ValueType::Int(v) } }
    pub fn new_f32(v: f32) -> (r: Value) { Value { obj: Object{}, value: ValueType::Float(v) } }
}

pub struct NativeFunctionCall { pub obj: Object }

impl NativeFunctionCall {
    fn add_op(&self, params: &[Rc<Value>]) -> (r: Result<Rc<dyn RTObject>, StoryError>)
        requires params.len() == 2
    {
        match &params[0].value {
            ValueType::Int(op1) => match params[1].value {
                ValueType::Int(op2) => Ok(Rc::new(Value::new_i32(op1 + op2))),
                _ => Err(StoryError::InvalidStoryState(
                    "Operation not available for type.".to_owned(),
                )),
            },
            ValueType::Float(op1) => match params[1].value {
                ValueType::Float(op2) => Ok(Rc::new(Value::new_f32(op1 + op2))),
                _ => Err(StoryError::InvalidStoryState(
                    "Operation not available for type.".to_owned(),
                )),
            },
            _ => Err(StoryError::InvalidStoryState(
                "Operation not available for type.".to_owned(),
            )),
        }
    }
}

} // verus!
fn main() {}
