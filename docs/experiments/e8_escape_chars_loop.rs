use vstd::prelude::*;
verus! {



pub assume_specification [String::with_capacity] (n: usize) -> (r: String)
    ensures r@ == Seq::<char>::empty();

pub open spec fn esc1(c: char) -> Seq<char> {
    if c == '"' { seq!['\\', '"'] }
    else if c == '\\' { seq!['\\', '\\'] }
    else if c == '\n' { seq!['\\', 'n'] }
    else { seq![c] }
}

pub open spec fn esc(s: Seq<char>) -> Seq<char>
    decreases s.len()
{
    if s.len() == 0 { seq![] } else { esc(s.drop_last()) + esc1(s.last()) }
}

fn escape_json_string(s: &str) -> (out: String)
    ensures out@ == esc(s@)
{
    let mut out = String::with_capacity(s.len());
    for c in it: s.chars()
        invariant
            out@ == esc(s@.subrange(0, it.index@)),
            it.history@ == s@.subrange(0, it.index@),
    {
        match c {
            '"' => out.push_str("\\\""),
            '\\' => out.push_str("\\\\"),
            '\n' => out.push_str("\\n"),
            c => out.push(c),
        }
    }
    out
}

} // verus!
fn main() {}
