use vstd::prelude::*;
use std::rc::Rc;
verus! {

#[verifier::external_body]
pub struct CallStack { _p: () }

impl CallStack {
    #[verifier::external_body]
    pub fn can_pop_thread(&self) -> bool { unimplemented!() }
    #[verifier::external_body]
    pub fn pop_thread(&mut self) { unimplemented!() }
}

// stands for Rc<RefCell<T>>
#[verifier::external_body]
#[verifier::reject_recursive_types(T)]
pub struct RcRefCell<T> { _p: std::marker::PhantomData<T> }

impl<T> RcRefCell<T> {
    #[verifier::external_body]
    pub fn borrow(&self) -> &T { unimplemented!() }
    #[verifier::external_body]
    pub fn borrow_mut(&self) -> &mut T { unimplemented!() }
}

pub struct Flow { pub callstack: RcRefCell<CallStack> }

fn test(f: &Flow) -> bool {
    let b = f.callstack.borrow().can_pop_thread();
    if b { f.callstack.borrow_mut().pop_thread(); }
    b
}

} // verus!
fn main() {}
