pub fn add_int(op1: i32, op2: i32) -> Result<i32, ()> { Ok(op1 + op2) }
pub fn div_int(op1: i32, op2: i32) -> Result<i32, ()> { Ok(op1 / op2) }

#[cfg(kani)]
mod h {
    use super::*;
    #[kani::proof]
    fn add_wraps() {
        let a: i32 = kani::any(); let b: i32 = kani::any();
        assert!(add_int(a,b) == Ok(a.wrapping_add(b)));
    }
    #[kani::proof]
    fn div_total() {
        let a: i32 = kani::any(); let b: i32 = kani::any();
        let _ = div_int(a,b);
    }
}
