use vstd::prelude::*;
use std::collections::HashMap;
verus! {

pub enum StoryError { InvalidStoryState(String), BadJson(String), BadArgument(String) }
impl StoryError {
    #[verifier::external_body]
    pub fn get_message(&self) -> String { unimplemented!() }
}
#[derive(PartialEq, Clone, Copy)]
pub enum ErrorType { Warning, Error }
#[derive(PartialEq, Clone, Copy)]
pub enum PushPopType { Tunnel, Function, FunctionEvaluationFromGame }

#[verifier::external_body] pub struct Instant { _p: () }
impl Instant {
    #[verifier::external_body] pub fn now() -> Instant { unimplemented!() }
    #[verifier::external_body] pub fn elapsed_ms_f32(&self) -> f32 { unimplemented!() }
}
#[verifier::external_body] pub struct ValueType { _p: () }
#[verifier::external_body] pub struct CallStack { _p: () }
impl CallStack {
    #[verifier::external_body] pub fn can_pop_thread(&self) -> bool { unimplemented!() }
    #[verifier::external_body] pub fn can_pop_type(&self, t: Option<PushPopType>) -> bool { unimplemented!() }
    #[verifier::external_body] pub fn can_pop(&self) -> bool { unimplemented!() }
}
#[verifier::external_body]
#[verifier::reject_recursive_types(T)]
pub struct RcRefCell<T> { _p: std::marker::PhantomData<T> }
impl<T> RcRefCell<T> {
    #[verifier::external_body] pub fn borrow(&self) -> &T { unimplemented!() }
}
#[verifier::external_body] pub struct ErrorHandlerRc { _p: () }
impl ErrorHandlerRc {
    #[verifier::external_body] pub fn borrow_mut_error(&self, message: &str, error_type: ErrorType) { unimplemented!() }
}
#[verifier::external_body] pub struct VariablesState { _p: () }
impl VariablesState {
    #[verifier::external_body] pub fn start_variable_observation(&mut self) { unimplemented!() }
    #[verifier::external_body] pub fn complete_variable_observation(&mut self) -> Vec<(String, ValueType)> { unimplemented!() }
}
#[verifier::external_body] pub struct Choice { _p: () }

pub struct StoryState {
    pub did_safe_exit: bool,
    pub variables_state: VariablesState,
    pub current_errors: Vec<String>,
    pub current_warnings: Vec<String>,
    pub callstack: RcRefCell<CallStack>,
    pub choices: Vec<Choice>,
}
impl StoryState {
    pub uninterp spec fn spec_can_continue(&self) -> bool;
    #[verifier::external_body] pub fn can_continue(&self) -> (r: bool) ensures r == self.spec_can_continue() { unimplemented!() }
    pub fn has_error(&self) -> (r: bool) ensures r == (self.current_errors@.len() > 0) { !self.current_errors.is_empty() }
    pub fn has_warning(&self) -> (r: bool) ensures r == (self.current_warnings@.len() > 0) { !self.current_warnings.is_empty() }
    pub fn get_current_errors(&self) -> (r: &[String]) ensures r@ == self.current_errors@ { &self.current_errors }
    pub fn get_current_warnings(&self) -> (r: &[String]) ensures r@ == self.current_warnings@ { &self.current_warnings }
    pub fn set_did_safe_exit(&mut self, v: bool)
        ensures *final(self) == (StoryState { did_safe_exit: v, ..*old(self) })
    { self.did_safe_exit = v; }
    pub fn is_did_safe_exit(&self) -> bool { self.did_safe_exit }
    #[verifier::external_body] pub fn reset_output(&mut self)
        ensures final(self).current_errors == old(self).current_errors, final(self).current_warnings == old(self).current_warnings
    { unimplemented!() }
    pub fn get_callstack(&self) -> &RcRefCell<CallStack> { &self.callstack }
    pub fn get_generated_choices(&self) -> &Vec<Choice> { &self.choices }
    pub(crate) fn reset_errors(&mut self)
        ensures final(self).current_errors@.len() == 0, final(self).current_warnings@.len() == 0,
    {
        self.current_errors.clear();
        self.current_warnings.clear();
    }
}

pub struct Story {
    pub state: StoryState,
    pub temporary_evaluation_container_is_none: bool,
    pub recursive_continue_count: usize,
    pub async_continue_active: bool,
    pub on_error: Option<ErrorHandlerRc>,
    pub state_snapshot_at_last_new_line: Option<StoryState>,
    pub saw_lookahead_unsafe_function_after_new_line: bool,
}

impl Story {
    pub fn get_state(&self) -> (r: &StoryState) ensures *r == self.state { &self.state }
    pub fn get_state_mut(&mut self) -> (r: &mut StoryState)
        ensures *r == old(self).state, // placeholder
    { &mut self.state }
    pub fn can_continue(&self) -> (r: bool) ensures r == self.state.spec_can_continue() { self.get_state().can_continue() }

    #[verifier::external_body]
    pub fn continue_single_step(&mut self) -> (r: Result<bool, StoryError>)
        ensures
            final(self).recursive_continue_count == old(self).recursive_continue_count,
            final(self).async_continue_active == old(self).async_continue_active,
            final(self).on_error == old(self).on_error,
    { unimplemented!() }
    #[verifier::external_body]
    pub fn add_error(&mut self, message: &str, is_warning: bool)
        ensures
            final(self).recursive_continue_count == old(self).recursive_continue_count,
            final(self).async_continue_active == old(self).async_continue_active,
            final(self).on_error == old(self).on_error,
    { unimplemented!() }
    #[verifier::external_body]
    pub fn restore_state_snapshot(&mut self)
        ensures
            final(self).recursive_continue_count == old(self).recursive_continue_count,
            final(self).async_continue_active == old(self).async_continue_active,
            final(self).on_error == old(self).on_error,
    { unimplemented!() }
    #[verifier::external_body]
    pub fn notify_variable_changed(&self, variable_name: &str, value: &ValueType) { unimplemented!() }

    #[verifier::exec_allows_no_decreases_clause]
    pub(crate) fn continue_internal(
        &mut self,
        millisecs_limit_async: f32,
    ) -> (r: Result<(), StoryError>)
        requires old(self).recursive_continue_count < 1000,
        ensures
            // C09: rejected call leaves the counters as they were
            (!old(self).async_continue_active && !old(self).state.spec_can_continue()) ==> (r is Err
                && final(self).recursive_continue_count == old(self).recursive_continue_count
                && final(self).async_continue_active == old(self).async_continue_active),
            // C13: with a handler nothing stays pending
            old(self).on_error is Some ==> final(self).state.current_errors@.len() == 0 && final(self).state.current_warnings@.len() == 0,
    {
        let is_async_time_limited = millisecs_limit_async > 0.0;

        self.recursive_continue_count += 1;

        if !self.async_continue_active {
            self.async_continue_active = is_async_time_limited;
            if !self.can_continue() {
                return Err(StoryError::InvalidStoryState(
                    "Can't continue - should check can_continue before calling Continue".to_owned(),
                ));
            }

            self.get_state_mut().set_did_safe_exit(false);

            self.get_state_mut().reset_output();

            if self.recursive_continue_count == 1 {
                self.state.variables_state.start_variable_observation();
            }
        } else if self.async_continue_active && !is_async_time_limited {
            self.async_continue_active = false;
        }

        let duration_stopwatch = match self.async_continue_active {
            true => Some(Instant::now()),
            false => None,
        };

        let mut output_stream_ends_in_newline = false;
        self.saw_lookahead_unsafe_function_after_new_line = false;

        loop
            invariant
                self.on_error == old(self).on_error,
                self.recursive_continue_count == old(self).recursive_continue_count + 1,
                self.async_continue_active ==> duration_stopwatch is Some,
        {
            match self.continue_single_step() {
                Ok(r) => output_stream_ends_in_newline = r,
                Err(e) => {
                    self.add_error(&e.get_message(), false);
                    break;
                }
            }

            if output_stream_ends_in_newline {
                break;
            }

            if self.async_continue_active
                && duration_stopwatch.as_ref().unwrap().elapsed_ms_f32()
                    > millisecs_limit_async
            {
                break;
            }

            if !self.can_continue() {
                break;
            }
        }

        let mut changed_variables_to_observe = None;

        if output_stream_ends_in_newline || !self.can_continue() {
            if self.state_snapshot_at_last_new_line.is_some() {
                self.restore_state_snapshot();
            }

            if !self.can_continue() {
                if self.state.get_callstack().borrow().can_pop_thread() {
                    self.add_error("Thread available to pop, threads should always be flat by the end of evaluation?", false);
                }

                if self.state.get_generated_choices().is_empty()
                    && !self.get_state().is_did_safe_exit()
                    && self.temporary_evaluation_container_is_none
                {
                    if self
                        .state
                        .get_callstack()
                        .borrow()
                        .can_pop_type(Some(PushPopType::Tunnel))
                    {
                        self.add_error("unexpectedly reached end of content. Do you need a '->->' to return from a tunnel?", false);
                    } else if self
                        .state
                        .get_callstack()
                        .borrow()
                        .can_pop_type(Some(PushPopType::Function))
                    {
                        self.add_error(
                            "unexpectedly reached end of content. Do you need a '~ return'?",
                            false,
                        );
                    } else if !self.get_state().get_callstack().borrow().can_pop() {
                        self.add_error(
                            "ran out of content. Do you need a '-> DONE' or '-> END'?",
                            false,
                        );
                    } else {
                        self.add_error("unexpectedly reached end of content for unknown reason. Please debug compiler!", false);
                    }
                }
            }
            self.get_state_mut().set_did_safe_exit(false);
            self.saw_lookahead_unsafe_function_after_new_line = false;

            if self.recursive_continue_count == 1 {
                changed_variables_to_observe =
                    Some(self.state.variables_state.complete_variable_observation());
            }

            self.async_continue_active = false;
        }

        self.recursive_continue_count -= 1;

        if self.get_state().has_error() || self.get_state().has_warning() {
            match &self.on_error {
                Some(on_err) => {
                    if self.get_state().has_error() {
                        for err in self.get_state().get_current_errors() {
                            on_err.borrow_mut_error(err, ErrorType::Error);
                        }
                    }

                    if self.get_state().has_warning() {
                        for err in self.get_state().get_current_warnings() {
                            on_err.borrow_mut_error(err, ErrorType::Warning);
                        }
                    }

                    self.reset_errors();
                }
                None => {
                    if self.get_state().has_error() {
                        let mut sb = String::new();
                        sb.push_str("Ink had ");
                        return Err(StoryError::InvalidStoryState(sb));
                    }
                    self.reset_errors();
                }
            }
        }

        if let Some(changed) = changed_variables_to_observe {
            for kv in changed.iter() {
                self.notify_variable_changed(&kv.0, &kv.1);
            }
        }

        Ok(())
    }

    pub fn reset_errors(&mut self)
        ensures final(self).state.current_errors@.len() == 0, final(self).state.current_warnings@.len() == 0,
            final(self).recursive_continue_count == old(self).recursive_continue_count,
            final(self).async_continue_active == old(self).async_continue_active,
            final(self).on_error == old(self).on_error,
    { self.state.reset_errors(); }
}

} // verus!
fn main() {}
