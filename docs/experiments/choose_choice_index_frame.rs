use vstd::prelude::*;
use std::collections::HashMap;
use std::rc::Rc;
verus! {
pub enum StoryError { InvalidStoryState(String), BadJson(String), BadArgument(String) }
#[verifier::external_body] pub struct Thread { _p: () }
#[verifier::external_body] pub struct Path { _p: () }
#[verifier::external_body] pub struct CallStack { _p: () }
impl CallStack { #[verifier::external_body] pub fn set_current_thread(&mut self, t: Thread) { unimplemented!() } }
#[verifier::external_body] #[verifier::reject_recursive_types(T)]
pub struct RcRefCell<T> { _p: std::marker::PhantomData<T> }
impl<T> RcRefCell<T> {
    #[verifier::external_body] pub fn borrow(&self) -> &T { unimplemented!() }
    #[verifier::external_body] pub fn borrow_mut(&self) -> &mut T { unimplemented!() }
}
pub struct Choice { pub target_path: Path, pub is_invisible_default: bool }
impl Choice { #[verifier::external_body] pub fn get_thread_at_generation(&self) -> Option<Thread> { unimplemented!() } }
#[verifier::external_body] pub struct Observer { _p: () }
pub struct StoryState { pub callstack: RcRefCell<CallStack>, pub current_choices: Vec<Rc<Choice>>, pub current_turn_index: i32 }
impl StoryState {
    pub fn get_callstack(&self) -> &RcRefCell<CallStack> { &self.callstack }
}
pub struct Story {
    pub state: StoryState,
    pub async_continue_active: bool,
    pub variable_observers: HashMap<String, Vec<Observer>>,
}
impl Story {
    pub fn get_state(&self) -> (r: &StoryState) ensures *r == self.state { &self.state }
    #[verifier::external_body]
    pub fn get_current_choices(&self) -> (r: Vec<Rc<Choice>>) { unimplemented!() }
    #[verifier::external_body]
    pub fn choose_path(&mut self, p: &Path, incrementing_turn_index: bool) -> (r: Result<(), StoryError>)
        ensures final(self).async_continue_active == old(self).async_continue_active,
                final(self).variable_observers == old(self).variable_observers,
    { unimplemented!() }

    pub fn choose_choice_index(&mut self, choice_index: usize) -> (r: Result<(), StoryError>)
        ensures
            r is Err ==> *final(self) == *old(self),
    {
        let choices = self.get_current_choices();
        if choice_index >= choices.len() {
            return Err(StoryError::BadArgument("choice out of range".to_owned()));
        }
        let choice_to_choose = choices.get(choice_index).unwrap();
        self.get_state()
            .get_callstack()
            .borrow_mut()
            .set_current_thread(choice_to_choose.get_thread_at_generation().unwrap());

        self.choose_path(&choice_to_choose.target_path, true)?;

        Ok(())
    }
}
} // verus!
fn main() {}
