use vstd::prelude::*;
use vstd::std_specs::hash::*;
use std::collections::HashMap;
verus! {
broadcast use vstd::std_specs::hash::group_hash_axioms;

pub enum StoryError { InvalidStoryState(String), BadJson(String), BadArgument(String) }

// ---- prelude stand-ins
#[verifier::external_body]
pub fn fmt_opaque() -> String { unimplemented!() }

#[verifier::external_body]
pub struct Flow { _p: () }
impl Flow {
    pub uninterp spec fn name(&self) -> Seq<char>;
}
#[verifier::external_body]
pub struct VariablesState { _p: () }

pub struct StoryState {
    pub current_flow: Flow,
    pub variables_state: VariablesState,
    pub current_errors: Vec<String>,
    pub current_warnings: Vec<String>,
    pub named_flows: Option<HashMap<String, Flow>>,
    pub alive_flow_names_dirty: bool,
}

#[verifier::external_body]
pub fn flow_name_eq(f: &Flow, s: &str) -> (r: bool) ensures r == (f.name() == s@) { unimplemented!() }

impl StoryState {
    #[verifier::external_body]
    pub(crate) fn switch_to_default_flow_internal(&mut self) { unimplemented!() }

    // verbatim (modulo flow_name.eq(..) stubs)
    pub(crate) fn remove_flow_internal(&mut self, flow_name: &str) -> (r: Result<(), StoryError>)
        ensures r is Err ==> *final(self) == *old(self),
    {
        if flow_name_eq(&self.current_flow, flow_name) {
            self.switch_to_default_flow_internal();
        }

        self.named_flows.as_mut().unwrap().remove(flow_name);
        self.alive_flow_names_dirty = true;

        Ok(())
    }

    pub(crate) fn reset_errors(&mut self)
        ensures final(self).current_errors@.len() == 0, final(self).current_warnings@.len() == 0,
    {
        self.current_errors.clear();
    }
}

} // verus!
fn main() {}
