use vstd::prelude::*;
use std::cell::OnceCell;
verus! {

// ---- prelude stand-ins -------------------------------------------------
#[verifier::external_body]
#[verifier::reject_recursive_types(T)]
pub struct VOnceCell<T> { _p: std::marker::PhantomData<T> }
impl<T> VOnceCell<T> {
    pub uninterp spec fn view(&self) -> Option<T>;
    #[verifier::external_body] pub fn new() -> (r: Self) ensures r@ is None { unimplemented!() }
    #[verifier::external_body] pub fn set(&self, v: T) -> (r: Result<(), T>) { unimplemented!() }
}

pub open spec fn split_dot(s: Seq<char>) -> Seq<Seq<char>>;   // A9: std str::split('.')
pub open spec fn parse_usize(s: Seq<char>) -> Option<usize>;  // A9: std str::parse::<usize>

#[verifier::external_body]
pub fn vx_split_dot(s: &str) -> (r: Vec<String>)
    ensures r@.len() == split_dot(s@).len(), forall|i: int| 0 <= i < r@.len() ==> (#[trigger] r@[i])@ == split_dot(s@)[i]
{ unimplemented!() }
#[verifier::external_body]
pub fn vx_parse_usize(s: &str) -> (r: Result<usize, ()>)
    ensures r is Ok <==> parse_usize(s@) is Some, r is Ok ==> r->Ok_0 == parse_usize(s@).unwrap()
{ unimplemented!() }
#[verifier::external_body]
pub fn vx_starts_with_dot(s: &str) -> (r: bool) ensures r == (s@.len() > 0 && s@[0] == '.') { unimplemented!() }
#[verifier::external_body]
pub fn vx_skip1(s: &str) -> (r: String) requires s@.len() >= 1 ensures r@ == s@.subrange(1, s@.len() as int) { unimplemented!() }

pub struct Component { pub index: Option<usize>, pub name: Option<String> }
impl Component {
    pub fn new(name: &str) -> (r: Component) ensures r.index is None, r.name is Some, r.name.unwrap()@ == name@ {
        Component { name: Some(name.to_string()), index: None }
    }
    pub fn new_i(index: usize) -> (r: Component) ensures r.index == Some(index), r.name is None {
        Component { name: None, index: Some(index) }
    }
}

pub struct Path {
    pub components: Vec<Component>,
    pub is_relative: bool,
    pub components_string: Option<String>,   // OnceCell<String> stand-in view
}

pub open spec fn comp_of(s: Seq<char>) -> (Option<usize>, Option<Seq<char>>) {
    match parse_usize(s) { Some(i) => (Some(i), None), None => (None, Some(s)) }
}

impl Path {
    pub fn new_with_components_string(components_string: Option<&str>) -> (r: Path)
        ensures
            components_string is Some && components_string.unwrap()@.len() > 0 ==>
                r.is_relative == (components_string.unwrap()@[0] == '.'),
            // C19: the cached text, when present, is the text this path prints as
            r.components_string is Some && r.is_relative ==> r.components_string.unwrap()@.len() > 0 && r.components_string.unwrap()@[0] == '.',
    {
        let cs = components_string;
        let is_relative: bool;

        if cs.is_none() || cs.as_ref().unwrap().is_empty() {
            return Path { components: Vec::new(), is_relative: false, components_string: None };
        }

        let mut cs = cs.unwrap().to_string();

        if vx_starts_with_dot(&cs) {
            is_relative = true;
            cs = vx_skip1(&cs);
        } else {
            is_relative = false;
        }

        let component_string = vx_split_dot(&cs);
        let mut components = Vec::new();

        for str in it: component_string.iter()
        {
            let index = vx_parse_usize(str);

            match index {
                Ok(index) => components.push(Component::new_i(index)),
                Err(_) => components.push(Component::new(str)),
            }
        }

        Path {
            components,
            is_relative,
            components_string: Some(cs),
        }
    }
}

} // verus!
fn main() {}
