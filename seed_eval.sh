#!/bin/bash
# seed_eval.sh <seed dir with patch.diff demo.rs meta.json> <name> <props...>
# Confirms a seeded change (compiles, suite passes, demo fails with / passes without) on a scratch copy of /repo,
# then runs the named property checks against the scratch copy. Output: one JSON line.
SD=$1; NAME=$2; shift 2; PROPS="$@"
D=/tmp/seedrepo
if [ ! -d $D ]; then rsync -a --exclude target /repo/ $D/; fi
cd $D && git checkout -q -- . && git clean -qfd conformance-tests/tests >/dev/null 2>&1
# sync to /repo HEAD content (tracked files) in case /repo moved
rsync -a --delete --exclude target /repo/ $D/ >/dev/null
# files the patch touches get a fresh mtime before each build (cargo compares mtimes; a revert within the same second would reuse the patched build)
PFILES=$(grep '^+++ b/' $SD/patch.diff | sed 's|^+++ b/||')
for f in $PFILES; do [ -f "$f" ] && touch "$f"; done
DEMO_PKG=${DEMO_PKG:-conformance-tests}; DEMO_DIR=${DEMO_DIR:-conformance-tests/tests}
cp $SD/demo.rs $DEMO_DIR/seed_demo_$NAME.rs
demo_without=$(cargo test -p $DEMO_PKG $DEMO_FEATURES --test seed_demo_$NAME --offline 2>&1 | grep -E "^test result" | head -1)
if ! git apply --check $SD/patch.diff 2>/dev/null; then echo "{\"name\":\"$NAME\",\"applies\":false}"; rm -f $DEMO_DIR/seed_demo_$NAME.rs; exit 0; fi
git apply $SD/patch.diff
for f in $PFILES; do [ -f "$f" ] && touch "$f"; done
demo_with=$(cargo test -p $DEMO_PKG $DEMO_FEATURES --test seed_demo_$NAME --offline 2>&1 | grep -E "^test result" | head -1)
rm -f $DEMO_DIR/seed_demo_$NAME.rs
suite=$(cargo test --workspace --no-fail-fast --offline 2>&1 | grep -E "^test result" | awk '{p+=$4; f+=$6} END{print p" passed, "f" failed"}')
res=""
for p in $PROPS; do
  out=$(VERIF_REPO=$D python3 /verif/check.py $p quick 2>&1); rc=$?
  ids=$(echo "$out" | grep "failed obligation" | sed 's/.*failed obligation: \([^ ]*\).*/\1/' | tr '\n' ' ')
  und=$(echo "$out" | grep -c "^UNDECIDED")
  res="$res{\"property\":\"$p\",\"exit\":$rc,\"failed_obligations\":\"$ids\",\"undecided\":$und},"
done
git checkout -q -- .
echo "{\"name\":\"$NAME\",\"applies\":true,\"demo_without_change\":\"$demo_without\",\"demo_with_change\":\"$demo_with\",\"suite_with_change\":\"$suite\",\"checks\":[${res%,}]}"
